(* C08 model, JSON half.  Executable definitions only; proofs are in Proofs/Json*.v.

   - jvalue / jtokens : a JSON value and what encoding/json's Decoder.Token reports for it;
   - jread / jbuild   : idr/jsonreader.go (parseDelim, parseVal, addElementChild, addTextChild,
                        streamCandidateCheck, wrapUpCurAndTargetCheck) for the target xpath ".";
   - j2iface          : idr/marshal2.go (j2NodeName, isChildText, isChildArray, getChildData,
                        nodeToInterface) = idr.J2NodeToInterface, and through it the `copy`
                        custom function (customfuncs.CopyFunc = J2NodeToInterface(n, true));
   - jtree            : the denotational description of the tree the reader builds (used by the
                        proofs as the middle point of the round trip);
   - check_jcase      : the correspondence check.

   Numbers: a float64 is identified by its IEEE bit pattern (an N assigned by the harness).
   strconv.FormatFloat(v,'f',-1,64) and strconv.ParseFloat enter as Section variables fmtf /
   parsef (external code); the correspondence instantiates them with the table the harness
   computed with strconv itself. *)
From Coq Require Import List NArith Bool.
From Coq.Strings Require Import Byte.
Import ListNotations.
From OV Require Import Base.Bytes Base.Cases Base.Tree.
Local Open Scope N_scope.

(* ---- JSON values -------------------------------------------------------------------------- *)
Inductive jvalue :=
| JNull
| JBool (b : bool)
| JNum (k : N)                          (* float64 identity: the bit pattern *)
| JStr (s : bytes)
| JArr (xs : list jvalue)
| JObj (kvs : list (bytes * jvalue)).   (* a Go map: association list, keys pairwise distinct *)

Fixpoint jvalue_eqb (a b : jvalue) : bool :=
  match a, b with
  | JNull, JNull => true
  | JBool x, JBool y => Bool.eqb x y
  | JNum x, JNum y => N.eqb x y
  | JStr x, JStr y => bytes_eqb x y
  | JArr xs, JArr ys =>
      (fix go (xs ys : list jvalue) : bool :=
         match xs, ys with
         | [], [] => true
         | x :: xs', y :: ys' => jvalue_eqb x y && go xs' ys'
         | _, _ => false
         end) xs ys
  | JObj xs, JObj ys =>
      (fix go (xs ys : list (bytes * jvalue)) : bool :=
         match xs, ys with
         | [], [] => true
         | (k, x) :: xs', (k', y) :: ys' => bytes_eqb k k' && jvalue_eqb x y && go xs' ys'
         | _, _ => false
         end) xs ys
  | _, _ => false
  end.

(* ---- encoding/json Decoder.Token ---------------------------------------------------------- *)
(* json.Delim '{' '}' '[' ']', string (object keys and string values alike), float64, bool, nil *)
Inductive jtok :=
| JTObjOpen | JTObjClose | JTArrOpen | JTArrClose
| JTStr (s : bytes) | JTNum (k : N) | JTBool (b : bool) | JTNull.

Definition jtok_eqb (a b : jtok) : bool :=
  match a, b with
  | JTObjOpen, JTObjOpen | JTObjClose, JTObjClose | JTArrOpen, JTArrOpen
  | JTArrClose, JTArrClose | JTNull, JTNull => true
  | JTStr x, JTStr y => bytes_eqb x y
  | JTNum x, JTNum y => N.eqb x y
  | JTBool x, JTBool y => Bool.eqb x y
  | _, _ => false
  end.

Fixpoint jtokens (v : jvalue) : list jtok :=
  match v with
  | JNull => [JTNull]
  | JBool b => [JTBool b]
  | JNum k => [JTNum k]
  | JStr s => [JTStr s]
  | JArr xs =>
      JTArrOpen ::
      (fix go (xs : list jvalue) : list jtok :=
         match xs with [] => [JTArrClose] | x :: r => jtokens x ++ go r end) xs
  | JObj kvs =>
      JTObjOpen ::
      (fix go (kvs : list (bytes * jvalue)) : list jtok :=
         match kvs with [] => [JTObjClose] | (k, x) :: r => JTStr k :: jtokens x ++ go r end) kvs
  end.

(* ---- idr/jsonnode.go ---------------------------------------------------------------------- *)
Definition JSONRoot : N := 1.
Definition JSONObj : N := 2.
Definition JSONArr : N := 4.
Definition JSONProp : N := 8.
Definition JSONValueStr : N := 16.
Definition JSONValueNum : N := 32.
Definition JSONValueBool : N := 64.
Definition JSONValueNull : N := 128.

Definition flag_set (f bit : N) : bool := negb (N.land f bit =? 0).

(* IsJSONxxx(n): IsJSON(n) && JSONTypeOf(n)&xxx != 0 *)
Definition fs_has (fs : fspec) (bit : N) : bool :=
  match fs with FJson f => flag_set f bit | _ => false end.
Definition fs_is_json (fs : fspec) : bool :=
  match fs with FJson _ => true | _ => false end.

Definition b_true : bytes := [x74; x72; x75; x65].
Definition b_false : bytes := [x66; x61; x6c; x73; x65].

(* ---- idr/jsonreader.go, target xpath "." -------------------------------------------------- *)
(* A node under construction: the reader only ever appends children to the current node or one
   of its ancestors, so the partially built tree is the stack of open nodes (top = sp.cur, the
   rest = its Parent chain), each with the children attached so far (most recent first).  Every
   node the reader creates is a JSON node, so a frame keeps the JSONType flags directly. *)
Record jframe := mkJF { jf_ty : ntype; jf_data : bytes; jf_flags : N; jf_kids : list tree }.

Definition jf_tree (f : jframe) : tree :=
  T (jf_ty f) (jf_data f) (FJson (jf_flags f)) (rev (jf_kids f)).
Definition jf_add (f : jframe) (c : tree) : jframe :=
  mkJF (jf_ty f) (jf_data f) (jf_flags f) (c :: jf_kids f).
Definition jf_or (f : jframe) (bit : N) : jframe :=
  mkJF (jf_ty f) (jf_data f) (N.lor (jf_flags f) bit) (jf_kids f).

(* js_stack = [] is sp.cur == nil.  js_stream: sp.stream, identified by the depth at which the
   node sits (stack length while it is sp.cur); with target "." MatchAny(root, ".") is true,
   so the first streamCandidateCheck marks the then-current node. *)
Record jstate := mkJS { js_stack : list jframe; js_stream : option nat }.

Definition jinit : jstate :=
  mkJS [mkJF DocumentNode [] JSONRoot []] None.

Inductive jres :=
| JRNode (t : tree)     (* Read returned this node (its whole subtree) *)
| JREof                 (* token stream ended: Decoder.Token's error (io.EOF) is returned *)
| JRErrExtra            (* "unexpected token after top-level value" *)
| JRPanic.              (* tok.(string) on a non-string key; unreachable behind encoding/json *)

Definition stream_check (s : jstate) : jstate :=
  match js_stream s with
  | None => mkJS (js_stack s) (Some (length (js_stack s)))
  | Some _ => s
  end.

(* addElementChild: create, AddChild(sp.cur, child), sp.cur = child *)
Definition add_elem (s : jstate) (data : bytes) (flags : N) : jstate :=
  mkJS (mkJF ElementNode data flags [] :: js_stack s) (js_stream s).

Definition set_top (s : jstate) (f : jframe) : jstate :=
  match js_stack s with
  | _ :: r => mkJS (f :: r) (js_stream s)
  | [] => s
  end.

Section Json.
  Variable fmtf : N -> bytes.     (* strconv.FormatFloat(v, 'f', -1, 64) *)
  Variable parsef : bytes -> N.   (* f, _ := strconv.ParseFloat(s, 64) *)

  (* addTextChild *)
  Definition text_child (tok : jtok) : tree :=
    match tok with
    | JTNum k => T TextNode (fmtf k) (FJson JSONValueNum) []
    | JTBool b => T TextNode (if b then b_true else b_false) (FJson JSONValueBool) []
    | JTNull => T TextNode [] (FJson JSONValueNull) []
    | JTStr s => T TextNode s (FJson JSONValueStr) []
    | _ => T TextNode [] (FJson JSONValueStr) []   (* not reached: delimiters go to parseDelim *)
    end.

  Definition add_text (s : jstate) (tok : jtok) : jstate :=
    match js_stack s with
    | top :: r => mkJS (jf_add top (text_child tok) :: r) (js_stream s)
    | [] => s
    end.

  (* wrapUpCurAndTargetCheck (no filter xpath for "."): sp.cur = sp.cur.Parent; the finished
     node is returned iff it is sp.stream. *)
  Definition wrap_up (s : jstate) : jstate * option jres :=
    match js_stack s with
    | [] => (s, None)
    | top :: r =>
        let t := jf_tree top in
        let is_stream := match js_stream s with
                         | Some d => Nat.eqb d (length (js_stack s))
                         | None => false
                         end in
        let r' := match r with p :: r2 => jf_add p t :: r2 | [] => [] end in
        (mkJS r' (js_stream s), if is_stream then Some (JRNode t) else None)
    end.

  Definition parse_open (s : jstate) (bit : N) : jstate * option jres :=
    match js_stack s with
    | [] => (s, None)
    | top :: _ =>
        if flag_set (jf_flags top) JSONArr then
          (stream_check (add_elem s [] bit), None)
        else if flag_set (jf_flags top) JSONProp then
          (set_top s (jf_or top bit), None)
        else if flag_set (jf_flags top) JSONRoot then
          (stream_check (set_top s (jf_or top bit)), None)
        else (s, None)
    end.

  Definition parse_val (s : jstate) (tok : jtok) : jstate * option jres :=
    match js_stack s with
    | [] => (s, None)
    | top :: _ =>
        if flag_set (jf_flags top) JSONObj then
          match tok with
          | JTStr k => (stream_check (add_elem s k JSONProp), None)
          | _ => (s, Some JRPanic)
          end
        else if flag_set (jf_flags top) JSONArr then
          wrap_up (add_text (stream_check (add_elem s [] JSONProp)) tok)
        else if flag_set (jf_flags top) JSONProp then
          wrap_up (add_text s tok)
        else if flag_set (jf_flags top) JSONRoot then
          wrap_up (add_text (stream_check s) tok)
        else (s, None)
    end.

  Definition jstep (s : jstate) (tok : jtok) : jstate * option jres :=
    match tok with
    | JTObjOpen => parse_open s JSONObj
    | JTArrOpen => parse_open s JSONArr
    | JTObjClose | JTArrClose => wrap_up s
    | _ => parse_val s tok
    end.

  (* One Read(): parse() loops over tokens until a node is returned or Token() fails. *)
  Fixpoint jread (s : jstate) (toks : list jtok) : jres * jstate * list jtok :=
    match toks with
    | [] => (JREof, s, [])
    | t :: r =>
        match js_stack s with
        | [] => (JRErrExtra, s, r)
        | _ =>
            let '(s', o) := jstep s t in
            match o with
            | Some res => (res, s', r)
            | None => jread s' r
            end
        end
    end.

  (* The whole document: the first Read returns the root exactly when the tokens are used up. *)
  Definition jbuild (toks : list jtok) : option tree :=
    match jread jinit toks with
    | (JRNode t, _, []) => Some t
    | _ => None
    end.

  (* ---- idr/marshal2.go -------------------------------------------------------------------- *)
  Definition j2_node_name (t : tree) : bytes :=
    match t_fs t with
    | FXml ((_ :: _) as p) _ => p ++ [x3a] ++ t_data t
    | _ => t_data t
    end.

  (* isChildText: a text child and no element child (the loop stops at the first element) *)
  Fixpoint is_child_text_from (kids : list tree) (text_found : bool) : bool :=
    match kids with
    | [] => text_found
    | k :: r =>
        match t_type k with
        | TextNode => is_child_text_from r true
        | ElementNode => false
        | _ => is_child_text_from r text_found
        end
    end.
  Definition is_child_text (t : tree) : bool := is_child_text_from (t_kids t) false.

  (* the name-inference loop of isChildArray: None = "return false" inside the loop *)
  Fixpoint infer_loop (kids : list tree) (num : nat) (name : option bytes) : option (nat * option bytes) :=
    match kids with
    | [] => Some (num, name)
    | c :: r =>
        match t_type c with
        | ElementNode =>
            match name with
            | None => infer_loop r (S num) (Some (j2_node_name c))
            | Some nm => if bytes_eqb (j2_node_name c) nm then infer_loop r (S num) name else None
            end
        | _ => infer_loop r num name
        end
    end.
  Definition infer_array (t : tree) : bool :=
    match infer_loop (t_kids t) 0 None with
    | None => false
    | Some (num, name) =>
        Nat.ltb 1 num ||
        (Nat.eqb num 1 && match name with Some [] => true | _ => false end)
    end.

  Definition is_child_array (use_json_type : bool) (t : tree) : bool :=
    if use_json_type then
      if fs_has (t_fs t) JSONArr then true
      else if fs_has (t_fs t) JSONObj then false
      else infer_array t
    else infer_array t.

  (* the pre-repair isChildArray (F5): only the JSONArr flag was trusted *)
  Definition is_child_array_old (use_json_type : bool) (t : tree) : bool :=
    if use_json_type && fs_has (t_fs t) JSONArr then true else infer_array t.

  (* strconv.ParseBool, error dropped (b is false on error) *)
  Definition parse_bool (s : bytes) : bool :=
    existsb (bytes_eqb s)
      [[x31]; [x74]; [x54]; [x54; x52; x55; x45]; b_true; [x54; x72; x75; x65]].

  (* getChildData; only called when isChildText(n), hence n.FirstChild != nil (see
     Proofs/Json.v: is_child_text_kids).  The [] branch is that unreachable nil case. *)
  Definition get_child_data (use_json_type : bool) (t : tree) : jvalue :=
    if negb (fs_is_json (t_fs t)) || negb use_json_type then JStr (inner_text t)
    else
      match t_kids t with
      | [] => JNull
      | c :: _ =>
          if fs_has (t_fs c) JSONValueNum then JNum (parsef (t_data c))
          else if fs_has (t_fs c) JSONValueBool then JBool (parse_bool (t_data c))
          else if fs_has (t_fs c) JSONValueNull then JNull
          else JStr (t_data c)
      end.

  (* obj[name]: a single value, or the slice created when a name repeats (fieldIsArr) *)
  Inductive jentry := ESingle (v : jvalue) | EMulti (vs : list jvalue).
  Definition jentry_val (e : jentry) : jvalue :=
    match e with ESingle v => v | EMulti vs => JArr vs end.

  Fixpoint obj_add (obj : list (bytes * jentry)) (name : bytes) (v : jvalue) : list (bytes * jentry) :=
    match obj with
    | [] => [(name, ESingle v)]
    | (k, e) :: r =>
        if bytes_eqb k name then
          (k, match e with ESingle old => EMulti [old; v] | EMulti vs => EMulti (vs ++ [v]) end) :: r
        else (k, e) :: obj_add r name v
    end.

  (* m[name] = v on a Go map kept as an association list in first-insertion order *)
  Fixpoint map_set {A} (m : list (bytes * A)) (name : bytes) (v : A) : list (bytes * A) :=
    match m with
    | [] => [(name, v)]
    | (k, e) :: r => if bytes_eqb k name then (k, v) :: r else (k, e) :: map_set r name v
    end.

  Definition b_attributes : bytes :=
    [x23; x61; x74; x74; x72; x69; x62; x75; x74; x65; x73].   (* "#attributes" *)

  (* nodeToInterface.  [old] selects the pre-repair isChildArray (kept for the F5 regression). *)
  Section J2.
    Variable old : bool.
    Variable use_json_type : bool.

    Fixpoint j2i (t : tree) : jvalue :=
      let 'T _ _ _ kids := t in
      if is_child_text t then get_child_data use_json_type t
      else if (if old then is_child_array_old use_json_type t else is_child_array use_json_type t) then
        JArr ((fix go (ks : list tree) : list jvalue :=
                 match ks with
                 | [] => []
                 | c :: r => match t_type c with ElementNode => j2i c :: go r | _ => go r end
                 end) kids)
      else
        let '(obj, attrs) :=
          (fix go (ks : list tree) (obj : list (bytes * jentry)) (attrs : list (bytes * jvalue))
             : list (bytes * jentry) * list (bytes * jvalue) :=
             match ks with
             | [] => (obj, attrs)
             | c :: r =>
                 match t_type c with
                 | ElementNode => go r (obj_add obj (j2_node_name c) (j2i c)) attrs
                 | AttributeNode => go r obj (map_set attrs (j2_node_name c) (j2i c))
                 | _ => go r obj attrs
                 end
             end) kids [] [] in
        let fields := map (fun '(k, e) => (k, jentry_val e)) obj in
        JObj (match attrs with
              | [] => fields
              | _ => map_set fields b_attributes (JObj attrs)
              end).
  End J2.

  Definition j2iface (use_json_type : bool) (t : tree) : jvalue := j2i false use_json_type t.
  Definition j2iface_old (use_json_type : bool) (t : tree) : jvalue := j2i true use_json_type t.

  (* customfuncs.CopyFunc *)
  Definition copy_func (t : tree) : jvalue := j2iface true t.

  (* ---- the tree the reader builds, described denotationally -------------------------------- *)
  Definition is_scalar (v : jvalue) : bool :=
    match v with JArr _ | JObj _ => false | _ => true end.
  Definition scalar_tok (v : jvalue) : jtok :=
    match v with
    | JNull => JTNull | JBool b => JTBool b | JNum k => JTNum k | JStr s => JTStr s
    | _ => JTNull
    end.

  (* the node hosting value v, created as (ty, data) with flags [base] before the value is seen *)
  Fixpoint jnode (ty : ntype) (data : bytes) (base : N) (v : jvalue) : tree :=
    match v with
    | JArr xs =>
        T ty data (FJson (N.lor base JSONArr))
          ((fix go (xs : list jvalue) : list tree :=
              match xs with
              | [] => []
              | x :: r => jnode ElementNode [] (if is_scalar x then JSONProp else 0) x :: go r
              end) xs)
    | JObj kvs =>
        T ty data (FJson (N.lor base JSONObj))
          ((fix go (kvs : list (bytes * jvalue)) : list tree :=
              match kvs with
              | [] => []
              | (k, x) :: r => jnode ElementNode k JSONProp x :: go r
              end) kvs)
    | _ => T ty data (FJson base) [text_child (scalar_tok v)]
    end.

  Definition jtree (v : jvalue) : tree := jnode DocumentNode [] JSONRoot v.
End Json.

(* ---- what the converter makes of a value with REPEATED object keys --------------------------------
   nodeToInterface folds members of equal name into an array, in member order, at the position of
   the first occurrence (obj_add); jfold is that folding applied at every level.  For values with
   pairwise distinct keys jfold is the identity (Proofs/Json.v jfold_wf). *)
Definition group_members (kvs : list (bytes * jvalue)) : list (bytes * jvalue) :=
  map (fun '(k, e) => (k, jentry_val e))
      (fold_left (fun acc kv => obj_add acc (fst kv) (snd kv)) kvs []).

Fixpoint jfold (v : jvalue) : jvalue :=
  match v with
  | JArr xs => JArr ((fix go (xs : list jvalue) : list jvalue :=
                        match xs with [] => [] | x :: r => jfold x :: go r end) xs)
  | JObj kvs => JObj (group_members
                        ((fix go (kvs : list (bytes * jvalue)) : list (bytes * jvalue) :=
                            match kvs with [] => [] | (k, x) :: r => (k, jfold x) :: go r end) kvs))
  | _ => v
  end.

(* ---- well-formedness of a value: object keys pairwise distinct at every level ---------------- *)
Fixpoint keys_distinct (ks : list bytes) : bool :=
  match ks with
  | [] => true
  | k :: r => negb (existsb (bytes_eqb k) r) && keys_distinct r
  end.

Fixpoint jwf (v : jvalue) : bool :=
  match v with
  | JArr xs => (fix go (xs : list jvalue) : bool :=
                  match xs with [] => true | x :: r => jwf x && go r end) xs
  | JObj kvs =>
      keys_distinct (map fst kvs) &&
      (fix go (kvs : list (bytes * jvalue)) : bool :=
         match kvs with [] => true | (_, x) :: r => jwf x && go r end) kvs
  | _ => true
  end.

(* every number of the value satisfies P (used for: strconv round-trips on it) *)
Fixpoint jnums (P : N -> Prop) (v : jvalue) : Prop :=
  match v with
  | JNum k => P k
  | JArr xs => (fix go (xs : list jvalue) : Prop :=
                  match xs with [] => True | x :: r => jnums P x /\ go r end) xs
  | JObj kvs => (fix go (kvs : list (bytes * jvalue)) : Prop :=
                   match kvs with [] => True | (_, x) :: r => jnums P x /\ go r end) kvs
  | _ => True
  end.

(* nesting depth: scalars 0, containers 1 + max of members *)
Fixpoint jdepth (v : jvalue) : nat :=
  match v with
  | JArr xs => S ((fix go (xs : list jvalue) : nat :=
                     match xs with [] => 0%nat | x :: r => Nat.max (jdepth x) (go r) end) xs)
  | JObj kvs => S ((fix go (kvs : list (bytes * jvalue)) : nat :=
                      match kvs with [] => 0%nat | (_, x) :: r => Nat.max (jdepth x) (go r) end) kvs)
  | _ => 0%nat
  end.

(* ---- canonical form for comparing against Go maps: keys sorted bytewise --------------------- *)
Fixpoint bytes_leb (a b : bytes) : bool :=
  match a, b with
  | [], _ => true
  | _ :: _, [] => false
  | x :: a', y :: b' =>
      if b2n x <? b2n y then true else if b2n y <? b2n x then false else bytes_leb a' b'
  end.

Fixpoint kv_insert {A} (k : bytes) (v : A) (l : list (bytes * A)) : list (bytes * A) :=
  match l with
  | [] => [(k, v)]
  | (k', v') :: r => if bytes_leb k k' then (k, v) :: l else (k', v') :: kv_insert k v r
  end.

Fixpoint jsort (v : jvalue) : jvalue :=
  match v with
  | JArr xs => JArr ((fix go (xs : list jvalue) : list jvalue :=
                        match xs with [] => [] | x :: r => jsort x :: go r end) xs)
  | JObj kvs => JObj ((fix go (kvs : list (bytes * jvalue)) : list (bytes * jvalue) :=
                         match kvs with [] => [] | (k, x) :: r => kv_insert k (jsort x) (go r) end) kvs)
  | _ => v
  end.

(* ---- correspondence ------------------------------------------------------------------------- *)
(* strconv as observed by the harness: (float64 bits, FormatFloat(v,'f',-1,64)) for every number
   of the case; ParseFloat is the reverse lookup (a text outside the table parses to a value the
   model does not know: reported as an all-ones pattern, which no observed number carries). *)
Definition ftab := list (N * bytes).
Fixpoint tab_fmt (tab : ftab) (k : N) : bytes :=
  match tab with
  | [] => []
  | (k', s) :: r => if k =? k' then s else tab_fmt r k
  end.
Fixpoint tab_parse (tab : ftab) (s : bytes) : N :=
  match tab with
  | [] => 18446744073709551615
  | (k, s') :: r => if bytes_eqb s s' then k else tab_parse r s
  end.

Record jcase := mkJCase {
  jc_val : option jvalue;      (* the generator's value (None: raw text, e.g. duplicate keys) *)
  jc_tab : ftab;
  jc_toks : list jtok;         (* json.Decoder.Token stream of the text, read by the harness *)
  jc_tree : option tree;       (* NewJSONStreamReader(text, ".").Read(): dump of the node *)
  jc_true : jvalue;            (* J2NodeToInterface(n, true), keys sorted *)
  jc_false : jvalue;           (* J2NodeToInterface(n, false), keys sorted *)
  jc_copy : option jvalue;     (* a real Transform with FINAL_OUTPUT = copy, output decoded *)
}.

Definition check_jcase (c : jcase) : bool :=
  let fmtf := tab_fmt (jc_tab c) in
  let parsef := tab_parse (jc_tab c) in
  match jbuild fmtf (jc_toks c), jc_tree c with
  | Some t, Some t' =>
      tree_eqb t t'
      && jvalue_eqb (jsort (j2iface parsef true t)) (jc_true c)
      && jvalue_eqb (jsort (j2iface parsef false t)) (jc_false c)
      && match jc_copy c with
         | Some v => jvalue_eqb (jsort (copy_func parsef t)) v
         | None => true
         end
      && match jc_val c with
         | Some v =>
             (* the token model, the denotational tree, and the property on the model side *)
             list_eqb jtok_eqb (jtokens v) (jc_toks c)
             && tree_eqb (jtree fmtf v) t
             (* json_convert_fold on this case; and, for distinct keys, the round trip *)
             && jvalue_eqb (j2iface parsef true t) (jfold v)
             && (negb (jwf v) || jvalue_eqb (jfold v) v)
         | None => true
         end
  | None, None => match jc_val c with None => true | Some _ => false end
  | _, _ => false
  end.
