(* C11 model: the two bindings of antchfx/xpath's NodeNavigator interface.

   Reference binding: antchfx/xmlquery v1.3.1 query.go (type NodeNavigator: root, curr, attr) over
   a DOM whose elements carry a separate attribute list.
   Binding under test: /repo idr/navigator.go (type navigator: root, cur) over the idr.Node tree, in
   which attributes are leading AttributeNode children (each with one TextNode child) and
   Value is Node.InnerText (idr/node.go).

   Positions are paths (child indices, DEEPEST FIRST: the head of the list is the index of the
   node in its parent's child list; [] is the root of the whole tree).  A Go pointer always
   denotes a node; a path may not.  Every operation therefore returns an [option]: [None] means
   "the position does not denote a node, or a Go index expression is out of range (panic)".
   Proofs/Nav.v shows that None never arises from a valid start (nav_no_panic).

   Executable definitions only; proofs are in Proofs/Nav.v. *)
From Coq Require Import List NArith Bool Arith.
From Coq.Strings Require Import Byte.
Import ListNotations.
From OV Require Import Base.Bytes Base.Cases Base.Tree.

(* ---- the interface ------------------------------------------------------------------------- *)
(* xpath.NodeType (xpath.go) *)
Inductive xtype := XRoot | XElement | XAttribute | XText | XComment.

(* The observing methods of xpath.NodeNavigator and what they return. *)
Inductive obs_op := ONodeType | OLocalName | OPrefix | OValue.
Inductive obs := VType (t : xtype) | VStr (s : bytes).

(* The moving methods.  MoveToRoot returns nothing in Go; here it reports [true]. *)
Inductive move_op := MRoot | MParent | MNextAttr | MChild | MFirst | MNext | MPrev.

Definition xtype_eqb (a b : xtype) : bool :=
  match a, b with
  | XRoot, XRoot | XElement, XElement | XAttribute, XAttribute | XText, XText
  | XComment, XComment => true
  | _, _ => false
  end.
Definition obs_eqb (a b : obs) : bool :=
  match a, b with
  | VType x, VType y => xtype_eqb x y
  | VStr x, VStr y => bytes_eqb x y
  | _, _ => false
  end.

(* ---- paths into an ordered tree -------------------------------------------------------------- *)
Definition path := list nat.

Section Paths.
  Variable A : Type.
  Variable kids : A -> list A.

  (* root-first descent *)
  Fixpoint get (t : A) (p : list nat) : option A :=
    match p with
    | [] => Some t
    | i :: r => match nth_error (kids t) i with Some k => get k r | None => None end
    end.

  (* the node a deepest-first path denotes *)
  Definition node_at (t : A) (rp : path) : option A := get t (rev rp).

  (* The pointer fields of the node at rp ([None] = nil). *)
  Definition ptr_parent (rp : path) : option path :=
    match rp with [] => None | _ :: r => Some r end.
  Definition ptr_first_child (t : A) (rp : path) : option path :=
    match node_at t rp with
    | Some n => match kids n with [] => None | _ :: _ => Some (0 :: rp) end
    | None => None
    end.
  Definition ptr_next_sibling (t : A) (rp : path) : option path :=
    match rp with
    | [] => None
    | i :: r => match node_at t (S i :: r) with Some _ => Some (S i :: r) | None => None end
    end.
  Definition ptr_prev_sibling (rp : path) : option path :=
    match rp with
    | [] => None
    | 0 :: _ => None
    | S j :: r => Some (j :: r)
    end.
End Paths.
Arguments get {A}. Arguments node_at {A}. Arguments ptr_first_child {A}.
Arguments ptr_next_sibling {A}.

Definition path_eqb (a b : path) : bool := list_eqb Nat.eqb a b.

(* ==== reference binding: xmlquery ============================================================== *)
(* xmlquery.Node restricted to what the IDR can represent: DocumentNode, ElementNode, TextNode.
   (CommentNode / DeclarationNode / CharDataNode are outside the scope of C11: the IDR has no
   counterpart; the harness normalises xmlquery.Parse output accordingly, see harness/cmd/c11.)
   An attribute is an xml.Attr whose Name.Space already holds the prefix (parse.go:104-109);
   da_uri is not visible through xmlquery, it is what to_idr needs for XMLSpecific. *)
Inductive dkind := DDoc | DElem | DText.
Record dattr := mkAttr { da_prefix : bytes; da_local : bytes; da_uri : bytes; da_value : bytes }.
Inductive dnode := D (k : dkind) (data prefix uri : bytes) (attrs : list dattr) (kids : list dnode).

Definition d_kind (d : dnode) := let 'D k _ _ _ _ _ := d in k.
Definition d_data (d : dnode) := let 'D _ x _ _ _ _ := d in x.
Definition d_prefix (d : dnode) := let 'D _ _ x _ _ _ := d in x.
Definition d_uri (d : dnode) := let 'D _ _ _ x _ _ := d in x.
Definition d_attrs (d : dnode) := let 'D _ _ _ _ x _ := d in x.
Definition d_kids (d : dnode) := let 'D _ _ _ _ _ x := d in x.

(* xmlquery node.go:47-66 Node.InnerText *)
Fixpoint d_inner_text (d : dnode) : bytes :=
  let 'D k data _ _ _ kids := d in
  match k with
  | DText => data
  | _ => flat_map d_inner_text kids
  end.

(* type NodeNavigator struct { root, curr *Node; attr int }   attr = -1 is [None] *)
Record dnav := mkDNav { dn_root : path; dn_cur : path; dn_attr : option nat }.

Definition d_node (doc : dnode) (rp : path) : option dnode := node_at d_kids doc rp.

(* query.go:141-158 NodeType *)
Definition d_nodetype (doc : dnode) (v : dnav) : option xtype :=
  match d_node doc (dn_cur v) with
  | None => None
  | Some n =>
      Some match d_kind n with
           | DText => XText
           | DDoc => XRoot
           | DElem => match dn_attr v with Some _ => XAttribute | None => XElement end
           end
  end.

(* x.curr.Attr[x.attr]: an index expression, panics when out of range *)
Definition d_cur_attr (doc : dnode) (v : dnav) (i : nat) : option dattr :=
  match d_node doc (dn_cur v) with
  | None => None
  | Some n => nth_error (d_attrs n) i
  end.

(* query.go:160-166 LocalName *)
Definition d_localname (doc : dnode) (v : dnav) : option bytes :=
  match dn_attr v with
  | Some i => option_map da_local (d_cur_attr doc v i)
  | None => option_map d_data (d_node doc (dn_cur v))
  end.

(* query.go:168-176 Prefix *)
Definition d_prefix_of (doc : dnode) (v : dnav) : option bytes :=
  match d_nodetype doc v with
  | None => None
  | Some XAttribute =>
      match dn_attr v with
      | Some i => option_map da_prefix (d_cur_attr doc v i)
      | None => Some []
      end
  | Some _ => option_map d_prefix (d_node doc (dn_cur v))
  end.

(* query.go:182-195 Value.  A DocumentNode falls through the switch: "" (quirk Q1).
   [fx] selects the repaired reference (see "the two places ..." below): fx = false is
   xmlquery v1.3.1 as it is; fx = true returns the XPath string-value of the document node. *)
Definition d_value (fx : bool) (doc : dnode) (v : dnav) : option bytes :=
  match d_node doc (dn_cur v) with
  | None => None
  | Some n =>
      match d_kind n with
      | DElem => match dn_attr v with
                 | Some i => option_map da_value (nth_error (d_attrs n) i)
                 | None => Some (d_inner_text n)
                 end
      | DText => Some (d_data n)
      | DDoc => Some (if fx then d_inner_text n else [])
      end
  end.

Definition d_obs (fx : bool) (doc : dnode) (v : dnav) (o : obs_op) : option obs :=
  match o with
  | ONodeType => option_map VType (d_nodetype doc v)
  | OLocalName => option_map VStr (d_localname doc v)
  | OPrefix => option_map VStr (d_prefix_of doc v)
  | OValue => option_map VStr (d_value fx doc v)
  end.

(* query.go:247-256: for { node := x.curr.PrevSibling; if node == nil { break }; x.curr = node } *)
Fixpoint d_walk_first (i : nat) : nat :=
  match i with 0 => 0 | S j => d_walk_first j end.

Definition d_move (fx : bool) (doc : dnode) (v : dnav) (m : move_op) : option (dnav * bool) :=
  match d_node doc (dn_cur v) with
  | None => None
  | Some n =>
      Some match m with
      | MRoot =>
          (* query.go:202-204: x.curr = x.root   (x.attr is NOT reset: quirk Q2; the repaired
             reference resets it) *)
          (mkDNav (dn_root v) (dn_root v) (if fx then None else dn_attr v), true)
      | MParent =>
          (* query.go:206-215 *)
          match dn_attr v with
          | Some _ => (mkDNav (dn_root v) (dn_cur v) None, true)
          | None => match ptr_parent (dn_cur v) with
                    | Some p => (mkDNav (dn_root v) p None, true)
                    | None => (v, false)
                    end
          end
      | MNextAttr =>
          (* query.go:217-223: if x.attr >= len(x.curr.Attr)-1 { return false }; x.attr++ *)
          let next := match dn_attr v with Some i => S i | None => 0 end in
          if length (d_attrs n) <=? next then (v, false)
          else (mkDNav (dn_root v) (dn_cur v) (Some next), true)
      | MChild =>
          (* query.go:225-234 *)
          match dn_attr v with
          | Some _ => (v, false)
          | None => match ptr_first_child d_kids doc (dn_cur v) with
                    | Some c => (mkDNav (dn_root v) c None, true)
                    | None => (v, false)
                    end
          end
      | MFirst =>
          (* query.go:236-249 *)
          match dn_attr v, ptr_prev_sibling (dn_cur v) with
          | None, Some _ =>
              match dn_cur v with
              | i :: r => (mkDNav (dn_root v) (d_walk_first i :: r) None, true)
              | [] => (v, false)
              end
          | _, _ => (v, false)
          end
      | MNext =>
          (* query.go:255-264 *)
          match dn_attr v with
          | Some _ => (v, false)
          | None => match ptr_next_sibling d_kids doc (dn_cur v) with
                    | Some s => (mkDNav (dn_root v) s None, true)
                    | None => (v, false)
                    end
          end
      | MPrev =>
          (* query.go:266-275 *)
          match dn_attr v with
          | Some _ => (v, false)
          | None => match ptr_prev_sibling (dn_cur v) with
                    | Some s => (mkDNav (dn_root v) s None, true)
                    | None => (v, false)
                    end
          end
      end
  end.

(* query.go:277-286 MoveTo.  Within one document "node.root != x.root" (pointer comparison)
   is comparison of the root paths; the type assertion always succeeds inside one binding. *)
Definition d_moveto (v other : dnav) : dnav * bool :=
  if path_eqb (dn_root other) (dn_root v)
  then (mkDNav (dn_root v) (dn_cur other) (dn_attr other), true)
  else (v, false).

(* ==== binding under test: idr/navigator.go ===================================================== *)
(* type navigator struct { root, cur *Node } *)
Record inav := mkINav { in_root : path; in_cur : path }.

Definition i_node (t : tree) (rp : path) : option tree := node_at t_kids t rp.
Definition i_type (t : tree) (rp : path) : option ntype := option_map t_type (i_node t rp).

Definition is_attr (ty : ntype) : bool :=
  match ty with AttributeNode => true | _ => false end.

(* navigator.go:15-27 NodeType: the switch as a table (re-extracted from the source into
   Gen/NavShape.v on every run; Proofs/Nav.v nodetype_table_extracted ties the two).  The trailing
   panic is unreachable: ntype has exactly the four constructors of the switch. *)
Definition i_xtype_of (ty : ntype) : xtype :=
  match ty with
  | DocumentNode => XRoot
  | ElementNode => XElement
  | TextNode => XText
  | AttributeNode => XAttribute
  end.
(* the iota values of xpath.NodeType (xpath.go:10-30) *)
Definition xtype_code (x : xtype) : N :=
  match x with XRoot => 0 | XElement => 1 | XAttribute => 2 | XText => 3 | XComment => 4 end%N.

Definition i_nodetype (t : tree) (v : inav) : option xtype :=
  option_map i_xtype_of (i_type t (in_cur v)).

(* navigator.go:29-31 *)
Definition i_localname (t : tree) (v : inav) : option bytes :=
  option_map t_data (i_node t (in_cur v)).

(* navigator.go:33-38: if !IsXML(nav.cur) { return "" }; XMLSpecificOf(nav.cur).NamespacePrefix *)
Definition i_prefix_of (t : tree) (v : inav) : option bytes :=
  match i_node t (in_cur v) with
  | None => None
  | Some n => Some match t_fs n with FXml p _ => p | _ => [] end
  end.

(* navigator.go:47-49 Value = nav.cur.InnerText() (node.go:116-133 = Base.Tree.inner_text) *)
Definition i_value (t : tree) (v : inav) : option bytes :=
  option_map inner_text (i_node t (in_cur v)).

Definition i_obs (t : tree) (v : inav) (o : obs_op) : option obs :=
  match o with
  | ONodeType => option_map VType (i_nodetype t v)
  | OLocalName => option_map VStr (i_localname t v)
  | OPrefix => option_map VStr (i_prefix_of t v)
  | OValue => option_map VStr (i_value t v)
  end.

(* navigator.go:94-96: n := cur.FirstChild; for ; n != nil && n.Type == AttributeNode; n = n.NextSibling {}
   over the child list from index j: the index where the loop stops, None = n == nil *)
Fixpoint i_skip_attrs (ks : list tree) (j : nat) : option nat :=
  match ks with
  | [] => None
  | k :: r => if is_attr (t_type k) then i_skip_attrs r (S j) else Some j
  end.

(* navigator.go:110-112: for ; n.PrevSibling != nil && n.PrevSibling.Type != AttributeNode; n = n.PrevSibling {}
   over the sibling list ks, starting at index i: the index where the loop stops
   (None = an index that does not denote a sibling) *)
Fixpoint i_walk_first (ks : list tree) (i : nat) : option nat :=
  match i with
  | 0 => Some 0
  | S j => match nth_error ks j with
           | None => None
           | Some k => if is_attr (t_type k) then Some (S j) else i_walk_first ks j
           end
  end.

Definition i_move (t : tree) (v : inav) (m : move_op) : option (inav * bool) :=
  match i_node t (in_cur v) with
  | None => None
  | Some n =>
      match m with
      | MRoot =>
          (* navigator.go:56-58 *)
          Some (mkINav (in_root v) (in_root v), true)
      | MParent =>
          (* navigator.go:60-66 *)
          match ptr_parent (in_cur v) with
          | None => Some (v, false)
          | Some p => Some (mkINav (in_root v) p, true)
          end
      | MNextAttr =>
          (* navigator.go:68-84 *)
          if is_attr (t_type n) then
            match ptr_next_sibling t_kids t (in_cur v) with
            | None => Some (v, false)
            | Some s => match i_type t s with
                        | None => None
                        | Some ty => if is_attr ty then Some (mkINav (in_root v) s, true)
                                     else Some (v, false)
                        end
            end
          else
            match ptr_first_child t_kids t (in_cur v) with
            | None => Some (v, false)
            | Some c => match i_type t c with
                        | None => None
                        | Some ty => if is_attr ty then Some (mkINav (in_root v) c, true)
                                     else Some (v, false)
                        end
            end
      | MChild =>
          (* navigator.go:86-102 *)
          if is_attr (t_type n) then Some (v, false)
          else match i_skip_attrs (t_kids n) 0 with
               | None => Some (v, false)
               | Some j => Some (mkINav (in_root v) (j :: in_cur v), true)
               end
      | MFirst =>
          (* navigator.go:104-118 *)
          if is_attr (t_type n) then Some (v, false)
          else match in_cur v with
               | [] => Some (v, false)            (* PrevSibling == nil: n == nav.cur *)
               | i :: r =>
                   match i_node t r with
                   | None => None
                   | Some p =>
                       match i_walk_first (t_kids p) i with
                       | None => None
                       | Some j => if Nat.eqb j i then Some (v, false)
                                   else Some (mkINav (in_root v) (j :: r), true)
                       end
                   end
               end
      | MNext =>
          (* navigator.go:124-131 *)
          if is_attr (t_type n) then Some (v, false)
          else match ptr_next_sibling t_kids t (in_cur v) with
               | None => Some (v, false)
               | Some s => Some (mkINav (in_root v) s, true)
               end
      | MPrev =>
          (* navigator.go:133-143 *)
          if is_attr (t_type n) then Some (v, false)
          else match ptr_prev_sibling (in_cur v) with
               | None => Some (v, false)
               | Some s => match i_type t s with
                           | None => None
                           | Some ty => if is_attr ty then Some (v, false)
                                        else Some (mkINav (in_root v) s, true)
                           end
               end
      end
  end.

(* navigator.go:145-152 MoveTo *)
Definition i_moveto (v other : inav) : inav * bool :=
  if path_eqb (in_root other) (in_root v)
  then (mkINav (in_root v) (in_cur other), true)
  else (v, false).

(* ==== from the DOM to the IDR tree (what idr/xmlreader.go builds) =============================== *)
Definition attr_node (a : dattr) : tree :=
  T AttributeNode (da_local a) (FXml (da_prefix a) (da_uri a))
    [T TextNode (da_value a) (FXml [] []) []].

Definition kind_ntype (k : dkind) : ntype :=
  match k with DDoc => DocumentNode | DElem => ElementNode | DText => TextNode end.

Fixpoint to_idr (d : dnode) : tree :=
  let 'D k data pfx uri attrs kids := d in
  T (kind_ntype k) data (FXml pfx uri) (map attr_node attrs ++ map to_idr kids).

(* the IDR path of the DOM node at dp: every child index is shifted by the number of
   attributes of its parent *)
Fixpoint to_ipath (doc : dnode) (dp : path) : path :=
  match dp with
  | [] => []
  | i :: r =>
      (match d_node doc r with Some n => length (d_attrs n) + i | None => i end) :: to_ipath doc r
  end.

(* Only elements carry attributes (XML). *)
Fixpoint dom_wfb (d : dnode) : bool :=
  let 'D k _ _ _ attrs kids := d in
  match k with DElem => true | _ => match attrs with [] => true | _ => false end end
  && forallb dom_wfb kids.

(* ==== navigator programs ======================================================================= *)
(* Any deterministic client of the interface: it holds finitely many navigators (registers
   x, y : nat; every register initially holds a copy of the start navigator, i.e.
   createNavigator(start) / CreateXPathNavigator(start)), observes, moves, copies and MoveTo's
   them, and decides what to do next from what it has seen. *)
Inductive prog (R : Type) : Type :=
| Ret (r : R)
| Obs (x : nat) (o : obs_op) (k : obs -> prog R)
| Move (x : nat) (m : move_op) (k : bool -> prog R)
| Copy (x y : nat) (k : prog R)             (* nav_y = nav_x.Copy() *)
| MoveTo (x y : nat) (k : bool -> prog R).  (* nav_x.MoveTo(nav_y) *)
Arguments Ret {R}. Arguments Obs {R}. Arguments Move {R}. Arguments Copy {R}. Arguments MoveTo {R}.

Definition upd {A} (f : nat -> A) (x : nat) (v : A) : nat -> A :=
  fun y => if Nat.eqb y x then v else f y.

Fixpoint run_dom {R} (fx : bool) (doc : dnode) (p : prog R) (regs : nat -> dnav) : option R :=
  match p with
  | Ret r => Some r
  | Obs x o k =>
      match d_obs fx doc (regs x) o with
      | Some v => run_dom fx doc (k v) regs
      | None => None
      end
  | Move x m k =>
      match d_move fx doc (regs x) m with
      | Some (v', b) => run_dom fx doc (k b) (upd regs x v')
      | None => None
      end
  | Copy x y k => run_dom fx doc k (upd regs y (regs x))
  | MoveTo x y k =>
      let '(v', b) := d_moveto (regs x) (regs y) in run_dom fx doc (k b) (upd regs x v')
  end.

Fixpoint run_idr {R} (t : tree) (p : prog R) (regs : nat -> inav) : option R :=
  match p with
  | Ret r => Some r
  | Obs x o k =>
      match i_obs t (regs x) o with
      | Some v => run_idr t (k v) regs
      | None => None
      end
  | Move x m k =>
      match i_move t (regs x) m with
      | Some (v', b) => run_idr t (k b) (upd regs x v')
      | None => None
      end
  | Copy x y k => run_idr t k (upd regs y (regs x))
  | MoveTo x y k =>
      let '(v', b) := i_moveto (regs x) (regs y) in run_idr t (k b) (upd regs x v')
  end.

Definition d_init (start : path) : nat -> dnav := fun _ => mkDNav start start None.
Definition i_init (start : path) : nat -> inav := fun _ => mkINav start start.

(* ---- the two places where xmlquery v1.3.1 itself leaves the XPath data model ------------------ *)
(* Q1: Value() of a DocumentNode is "" (the switch in query.go:182-195 has no case for it); the
       XPath string-value of the root is the concatenated text, which is what the IDR returns.
   Q2: MoveToRoot() keeps x.attr, so a navigator standing on an attribute ends up "on attribute
       i of the root" (NodeType Root with MoveToChild refused, or an index panic when the root is
       an element).
   Both are confirmed on the Go code by the harness (summary.extra.reference_quirks); in both the
   IDR is the side that follows the XPath data model.  The agreement theorem is stated
   (a) for xmlquery as it is (fx = false) over executions that avoid Q1 and Q2 ([ref_ok]), and
   (b) without any guard for the repaired reference (fx = true: Value() of the document node is
       its InnerText, MoveToRoot() resets the attribute index) - the harness's end-to-end
       comparison runs the engine over exactly this repair (fixNav in harness/cmd/c11/expr.go). *)
Definition quirk_obs (doc : dnode) (v : dnav) (o : obs_op) : bool :=
  match o, d_nodetype doc v with
  | OValue, Some XRoot => true
  | _, _ => false
  end.
Definition quirk_move (v : dnav) (m : move_op) : bool :=
  match m, dn_attr v with
  | MRoot, Some _ => true
  | _, _ => false
  end.

(* The execution of p on the reference never performs Q1 or Q2. *)
Fixpoint ref_ok {R} (doc : dnode) (p : prog R) (regs : nat -> dnav) : Prop :=
  match p with
  | Ret _ => True
  | Obs x o k =>
      quirk_obs doc (regs x) o = false /\
      match d_obs false doc (regs x) o with
      | Some v => ref_ok doc (k v) regs
      | None => True
      end
  | Move x m k =>
      quirk_move (regs x) m = false /\
      match d_move false doc (regs x) m with
      | Some (v', b) => ref_ok doc (k b) (upd regs x v')
      | None => True
      end
  | Copy x y k => ref_ok doc k (upd regs y (regs x))
  | MoveTo x y k =>
      let '(v', b) := d_moveto (regs x) (regs y) in ref_ok doc (k b) (upd regs x v')
  end.

(* ref_ok as a computation (Proofs/Nav.v ref_okb_spec); check_case evaluates it on every real run
   of xmlquery as it is and, when it holds, demands what nav_programs_agree states: equal traces. *)
Fixpoint ref_okb {R} (doc : dnode) (p : prog R) (regs : nat -> dnav) : bool :=
  match p with
  | Ret _ => true
  | Obs x o k =>
      negb (quirk_obs doc (regs x) o) &&
      match d_obs false doc (regs x) o with
      | Some v => ref_okb doc (k v) regs
      | None => true
      end
  | Move x m k =>
      negb (quirk_move (regs x) m) &&
      match d_move false doc (regs x) m with
      | Some (v', b) => ref_okb doc (k b) (upd regs x v')
      | None => true
      end
  | Copy x y k => ref_okb doc k (upd regs y (regs x))
  | MoveTo x y k =>
      let '(v', b) := d_moveto (regs x) (regs y) in ref_okb doc (k b) (upd regs x v')
  end.

(* ---- the attribute axis as the engine walks it (query.go attributeQuery): Copy, then
   MoveToNextAttribute until it refuses; what is seen at each stop ---------------------------- *)
Fixpoint i_attr_walk (t : tree) (v : inav) (fuel : nat) : option (list (obs * obs * obs)) :=
  match fuel with
  | 0 => Some []
  | S f =>
      match i_move t v MNextAttr with
      | None => None
      | Some (_, false) => Some []
      | Some (v', true) =>
          match i_obs t v' OPrefix, i_obs t v' OLocalName, i_obs t v' OValue, i_attr_walk t v' f with
          | Some p, Some l, Some x, Some r => Some ((p, l, x) :: r)
          | _, _, _, _ => None
          end
      end
  end.

(* ==== idr/query.go: MatchAny / MatchAll / MatchSingle over the engine's iterator ================ *)
(* The engine's *xpath.NodeIterator is abstract: a state and one step (iter.MoveNext() followed by
   nodeFromIter(iter)); a step yields a node, ends, or panics inside the library (recovered by
   the wrappers, query.go:58-62, 93-98, 119-124). *)
Inductive istep (S N : Type) := INext (n : N) (s : S) | IEnd | IPanic.
Arguments INext {S N}. Arguments IEnd {S N}. Arguments IPanic {S N}.

Inductive werr := ECompile | ENoMatch | EMoreThanExpected | EQueryFailed.
Inductive wres (A : Type) := WOk (a : A) | WErr (e : werr) | WOutOfFuel.
Arguments WOk {A}. Arguments WErr {A}. Arguments WOutOfFuel {A}.

Section Wrappers.
  Variable S N : Type.
  Variable next : S -> istep S N.

  (* query.go:100-104: for iter.MoveNext() { ret = append(ret, nodeFromIter(iter)) } *)
  Fixpoint match_all_loop (fuel : nat) (s : S) (acc : list N) : wres (list N) :=
    match fuel with
    | 0 => WOutOfFuel
    | Datatypes.S f =>
        match next s with
        | INext n s' => match_all_loop f s' (n :: acc)
        | IEnd => WOk (rev acc)
        | IPanic => WErr EQueryFailed
        end
    end.

  (* query.go:85-105 MatchAll.  is_dot: exprStr == "."; compiled: loadXPathExpr then QueryIter
     (None = compilation error) *)
  Definition match_all (is_dot : bool) (self : N) (compiled : option S) (fuel : nat) : wres (list N) :=
    if is_dot then WOk [self]
    else match compiled with
         | None => WErr ECompile
         | Some s => match_all_loop fuel s []
         end.

  (* query.go:110-135 MatchSingle *)
  Definition match_single (is_dot : bool) (self : N) (compiled : option S) : wres N :=
    if is_dot then WOk self
    else match compiled with
         | None => WErr ECompile
         | Some s =>
             match next s with
             | IEnd => WErr ENoMatch
             | IPanic => WErr EQueryFailed
             | INext n s' =>
                 match next s' with
                 | INext _ _ => WErr EMoreThanExpected
                 | IEnd => WOk n
                 | IPanic => WErr EQueryFailed
                 end
             end
         end.

  (* query.go:57-64 MatchAny: a panic counts as "no result" *)
  Definition match_any (s : S) : bool :=
    match next s with INext _ _ => true | _ => false end.
End Wrappers.
Arguments match_all_loop {S N}. Arguments match_all {S N}. Arguments match_single {S N}.
Arguments match_any {S N}.

(* a scripted iterator: the nodes idr.QueryIter was seen to produce, and how it stopped *)
Definition script_next (panics : bool) (s : list N) : istep (list N) N :=
  match s with
  | n :: r => INext n r
  | [] => if panics then IPanic else IEnd
  end.

(* ==== correspondence cases ===================================================================== *)
(* Straight-line operation sequences, as the harness issues them on both real navigators. *)
Inductive op :=
| OpObs (x : nat) (o : obs_op)
| OpMove (x : nat) (m : move_op)
| OpCopy (x y : nat)
| OpMoveTo (x y : nat).
Inductive res := RObs (v : obs) | RBool (b : bool) | RUnit.

Definition res_eqb (a b : res) : bool :=
  match a, b with
  | RObs x, RObs y => obs_eqb x y
  | RBool x, RBool y => Bool.eqb x y
  | RUnit, RUnit => true
  | _, _ => false
  end.

(* the sequence as a program that returns everything it saw *)
Fixpoint trace_prog (ops : list op) (acc : list res) : prog (list res) :=
  match ops with
  | [] => Ret (rev acc)
  | OpObs x o :: r => Obs x o (fun v => trace_prog r (RObs v :: acc))
  | OpMove x m :: r => Move x m (fun b => trace_prog r (RBool b :: acc))
  | OpCopy x y :: r => Copy x y (trace_prog r (RUnit :: acc))
  | OpMoveTo x y :: r => MoveTo x y (fun b => trace_prog r (RBool b :: acc))
  end.

(* One run: start node (ROOT-FIRST DOM path, as the harness prints it), the operations, what
   xmlquery's navigator (as it is, or repaired) answered and what the idr navigator answered. *)
Record nrun := mkRun {
  r_fx : bool;            (* the reference side ran on the repaired navigator (harness fixNav) *)
  r_start : list nat;
  r_ops : list op;
  r_dom : list res;
  r_idr : list res;
}.

(* One case: the document (DOM as xmlquery holds it), the tree idr.NewXMLStreamReader built from
   the same text, and runs on it. *)
Record ncase := mkCase {
  c_doc : dnode;
  c_tree : tree;
  c_runs : list nrun;
}.

Definition valid_start (doc : dnode) (start : path) : bool :=
  match d_node doc start with Some _ => true | None => false end.

Definition check_run (doc : dnode) (t : tree) (r : nrun) : bool :=
  let start := rev (r_start r) in
  let p := trace_prog (r_ops r) [] in
  valid_start doc start
  && match run_dom (r_fx r) doc p (d_init start) with
     | Some out => list_eqb res_eqb out (r_dom r)
     | None => false
     end
  && match run_idr t p (i_init (to_ipath doc start)) with
     | Some out => list_eqb res_eqb out (r_idr r)
     | None => false
     end
  (* what the theorems state, on the real observations: equal traces whenever the run is in
     scope of the reference as it is (ref_okb), and always against the repaired reference *)
  && (if r_fx r then list_eqb res_eqb (r_dom r) (r_idr r)
      else if ref_okb doc p (d_init start) then list_eqb res_eqb (r_dom r) (r_idr r) else true).

(* all node positions of the document, root first *)
Fixpoint d_paths (d : dnode) : list (list nat) :=
  let 'D _ _ _ _ _ kids := d in
  [] :: (fix go (i : nat) (ks : list dnode) : list (list nat) :=
           match ks with
           | [] => []
           | k :: r => map (cons i) (d_paths k) ++ go (S i) r
           end) 0 kids.

Definition attr_obs (a : dattr) : obs * obs * obs :=
  (VStr (da_prefix a), VStr (da_local a), VStr (da_value a)).
Definition obs3_eqb (a b : obs * obs * obs) : bool :=
  let '(a1, a2, a3) := a in let '(b1, b2, b3) := b in
  obs_eqb a1 b1 && obs_eqb a2 b2 && obs_eqb a3 b3.

(* the attribute axis, walked by the idr navigator over the OBSERVED tree from every node of the
   document: the attributes xmlquery holds for that node, in its order (attr_walk_document_order) *)
Definition check_attr_axis (doc : dnode) (t : tree) : bool :=
  forallb (fun p =>
    let rp := rev p in
    match d_node doc rp with
    | None => false
    | Some n =>
        opt_eqb (list_eqb obs3_eqb)
          (i_attr_walk t (mkINav [] (to_ipath doc rp)) (S (length (d_attrs n))))
          (Some (map attr_obs (d_attrs n)))
    end) (d_paths doc).

Definition check_ncase (c : ncase) : bool :=
  dom_wfb (c_doc c)
  && tree_eqb (to_idr (c_doc c)) (c_tree c)
  && check_attr_axis (c_doc c) (c_tree c)
  && forallb (check_run (c_doc c) (c_tree c)) (c_runs c).

(* One query through the string API: what idr.QueryIter produced (node numbers of this case, in
   iteration order; did it stop by a panic), and what MatchAll / MatchSingle / MatchAny returned
   for the same expression from the same node. *)
Inductive wout (A : Type) := OOk (a : A) | ONoMatch | OMoreThanExpected | OOtherErr.
Arguments OOk {A}. Arguments ONoMatch {A}. Arguments OMoreThanExpected {A}. Arguments OOtherErr {A}.

Record wcase := mkW {
  w_dot : bool;             (* the expression is "." *)
  w_self : N;               (* the start node *)
  w_compiles : bool;
  w_iter : list N;
  w_iter_panics : bool;
  w_all : wout (list N);
  w_single : wout N;
  w_any : bool;
}.

Definition wres_wout {A} (eqb : A -> A -> bool) (m : wres A) (o : wout A) : bool :=
  match m, o with
  | WOk a, OOk b => eqb a b
  | WErr ENoMatch, ONoMatch => true
  | WErr EMoreThanExpected, OMoreThanExpected => true
  | WErr ECompile, OOtherErr | WErr EQueryFailed, OOtherErr => true
  | _, _ => false
  end.

Definition check_wcase (c : wcase) : bool :=
  let nx := script_next (w_iter_panics c) in
  let compiled := if w_compiles c then Some (w_iter c) else None in
  wres_wout (list_eqb N.eqb) (match_all nx (w_dot c) (w_self c) compiled (S (length (w_iter c)))) (w_all c)
  && wres_wout N.eqb (match_single nx (w_dot c) (w_self c) compiled) (w_single c)
  && (if w_compiles c then Bool.eqb (match_any nx (w_iter c)) (w_any c) else true).

Inductive c11case := NavCase (c : ncase) | WrapCases (cs : list wcase).
Definition check_case (c : c11case) : bool :=
  match c with
  | NavCase c => check_ncase c
  | WrapCases cs => forallb check_wcase cs
  end.
