(* C02 model, layer 3: evaluation of a validated declaration on a record.
   Transcribes extensions/omniv21/transform/parse.go (ParseNode with the transform cache keyed by
   node ID / declaration hash / xpathQueryNeeded, parseConst, parseExternal, xpathQueryNeeded,
   computeXPath, computeXPathDynamic, querySingleNodeFromXPath, parseField, parseCustomFunc,
   parseCustomParse, parseObject, parseArray) and invokeCustomFunc.go (invokeCustomFunc,
   prepArgValues, getFuncArgType), plus idr.MatchSingle / idr.MatchAll over an arbitrary xpath
   engine.  Then, independently, the documented evaluation (doc/transforms.md, doc/xpath.md) on
   the UNEXPANDED declarations: eval_spec.  Executable definitions only. *)
From Coq Require Import String List ZArith NArith Bool.
From Coq.Strings Require Import Byte.
Import ListNotations.
From OV Require Import Base.Bytes Base.Cases Base.Tree Gen.Conv Model.Value Model.XPathFrag Model.Decl.

(* ---- custom functions ------------------------------------------------------------------------- *)
(* Go parameter types as far as reflect's AssignableTo can tell the evaluator's values apart *)
Inductive gty := TString | TInt64 | TFloat64 | TBool | TIface | TSlice | TMap | TOther (n : N).

Definition gty_eqb (a b : gty) : bool :=
  match a, b with
  | TString, TString | TInt64, TInt64 | TFloat64, TFloat64 | TBool, TBool | TIface, TIface
  | TSlice, TSlice | TMap, TMap => true
  | TOther n, TOther m => N.eqb n m
  | _, _ => false
  end.

(* signature after the leading *transformctx.Ctx (and optional *idr.Node) parameters *)
Record fsig := mkSig { s_fixed : list gty; s_variadic : option gty }.

Inductive cfres := CfOk (v : value) | CfErr.

(* dynamic type of a non-nil value *)
Definition gty_of (v : value) : gty :=
  match v with
  | VNil => TIface
  | VStr _ => TString
  | VInt _ => TInt64
  | VFloat _ => TFloat64
  | VBool _ => TBool
  | VList _ => TSlice
  | VObj _ => TMap
  end.

(* argVal.Type().AssignableTo(argType) *)
Definition assignable (v : value) (t : gty) : bool :=
  match t with TIface => true | _ => gty_eqb (gty_of v) t end.

(* reflect.Zero(argType) as the evaluator's value (the nil interface for interface{}; the zero
   value of a type the evaluator never produces is passed as nil and left to the function) *)
Definition zero_of (t : gty) : value :=
  match t with
  | TString => VStr []
  | TInt64 => VInt 0
  | TFloat64 => VFloat (Flt 0 0)
  | TBool => VBool false
  | TSlice => VList []
  | TMap => VNil
  | TIface => VNil
  | TOther _ => VNil
  end.

(* getFuncArgType for the i-th schema argument (0-based) *)
Definition arg_type (s : fsig) (i : nat) : option gty :=
  match nth_error (s_fixed s) i with
  | Some t => Some t
  | None => s_variadic s
  end.

(* ---- the evaluator ----------------------------------------------------------------------------- *)
Section Eval.
  Variable root : tree.                                     (* the record's node tree *)
  Variable query : bytes -> path -> option (list path).     (* xpath engine: None = compile/eval error *)
  Variable ext : bytes -> option bytes.                     (* transformctx.Ctx.External *)
  Variable fsigs : bytes -> option fsig.                    (* registered custom functions *)
  Variable fcall : bytes -> path -> list value -> cfres.    (* reflect.Call on one of them *)
  Variable pcall : bytes -> path -> cfres.                  (* custom_parse functions (deprecated) *)
  Variable K : Type.                                        (* node IDs *)
  Variable K_eqb : K -> K -> bool.
  Variable nid : path -> K.                                 (* Node.ID of the node at a path *)
  Variable disable : bool.                                  (* parseCtx.disableTransformCache *)
  (* false = the cache key of /repo HEAD (node ID / hash / xpathQueryNeeded); true = the key
     before the F2 repair (node ID / hash), kept for eval_cache_old_refuted *)
  Variable legacy_key : bool.

  (* parseCtx.transformCache: key = node ID / declaration hash / xpathQueryNeeded(decl) *)
  Definition mkey := (K * pdecl * bool)%type.
  Definition memo := list (mkey * value).
  Definition mkey_eqb (a b : mkey) : bool :=
    let '(k, h, q) := a in let '(k', h', q') := b in
    K_eqb k k' && Bool.eqb q q' && pdecl_eqb h h'.
  Fixpoint memo_get (k : mkey) (m : memo) : option value :=
    match m with
    | [] => None
    | (k', v) :: r => if mkey_eqb k k' then Some v else memo_get k r
    end.

  Definition ev := path -> memo -> res * memo.

  (* What ParseNode reads of a declaration: its public content, xpathQueryNeeded(decl) (a
     function of fqdn, isXPathSet and parent.kind, all fixed at validation), and its hash. *)
  Record einfo := mkE { e_pub : pinfo; e_needed : bool; e_hash : pdecl }.

  (* xpathQueryNeeded *)
  Definition needed (i : vinfo) (x : bool) : bool :=
    negb (fqdn_is_final (v_fqdn i)) && (is_some (p_xpath (v_pub i)) || x) && negb (parent_is_array i).
  Definition einfo_of (i : vinfo) (x : bool) : einfo := mkE (v_pub i) (needed i x) (v_hash i).

  (* a declaration compiled against its already compiled xpath_dynamic and children; a child
     comes with the key its parent files it under (LastNameletOfFQDNWithEsc of its fqdn) *)
  Record comp := mkComp { c_info : einfo; c_xdyn : option ev; c_ev : ev }.

  Definition norm_of (i : einfo) (v : value) : nres :=
    normalize (p_notrim (e_pub i)) (p_keep (e_pub i)) (p_rtype (e_pub i)) v.
  Definition norm_ret (i : einfo) (v : value) : res :=
    normalize_ret (p_notrim (e_pub i)) (p_keep (e_pub i)) (p_rtype (e_pub i)) v.

  (* computeXPath + computeXPathDynamic: the xpath, or XFail when the dynamic xpath cannot be
     computed (error, nil, non-string, blank) *)
  Inductive xres := XOk (x : bytes) | XFail | XPanic.
  Definition xres_of_dyn (r : res) : xres :=
    match r with
    | Ok (VStr s) => if is_nonblank s then XOk s else XFail
    | Ok _ => XFail
    | Err => XFail
    | Panic => XPanic
    end.
  Definition static_xpath (i : einfo) : option bytes :=
    match p_xpath (e_pub i) with
    | Some x => if is_nonblank x then Some x else None     (* strs.IsStrPtrNonBlank *)
    | None => None
    end.
  Definition compute_xpath (i : einfo) (xd : option ev) (p : path) (m : memo) : xres * memo :=
    match static_xpath i with
    | Some x => (XOk x, m)
    | None =>
        match xd with
        | Some e => let '(r, m') := e p m in (xres_of_dyn r, m')
        | None => (XOk (bs "."), m)
        end
    end.

  (* idr.MatchAll / idr.MatchSingle *)
  Definition match_all (x : bytes) (p : path) : option (list path) :=
    if bytes_eqb x (bs ".") then Some [p] else query x p.

  Inductive qres := QNode (p : path) | QNone | QErr | QPanic.
  Definition match_single (x : bytes) (p : path) : qres :=
    if bytes_eqb x (bs ".") then QNode p
    else match query x p with
         | None => QErr
         | Some [] => QNone
         | Some [q] => QNode q
         | Some _ => QErr
         end.

  (* querySingleNodeFromXPath *)
  Definition query_single (i : einfo) (xd : option ev) (p : path) (m : memo) : qres * memo :=
    if negb (e_needed i) then (QNode p, m)
    else
      let '(xr, m') := compute_xpath i xd p m in
      match xr with
      | XOk x => (match_single x p, m')
      | XFail => (QNone, m')     (* `if err != nil { return nil, nil }` *)
      | XPanic => (QPanic, m')
      end.

  Definition anchored (i : einfo) (xd : option ev) (body : path -> memo -> res * memo) : ev :=
    fun p m =>
      let '(q, m') := query_single i xd p m in
      match q with
      | QNode n => body n m'
      | QNone => (Ok VNil, m')
      | QErr => (Err, m')
      | QPanic => (Panic, m')
      end.

  (* parseObject's loop over decl.children *)
  Fixpoint object_loop (cs : list (bytes * comp)) (n : path) (obj : list (bytes * value)) (m : memo)
    : res * memo :=
    match cs with
    | [] => (Ok (VObj obj), m)
    | (key, c) :: r =>
        let '(rv, m') := c_ev c n m in
        match rv with
        | Ok v =>
            match norm_of (c_info c) v with
            | NSave v' => object_loop r n (obj_set key v' obj) m'
            | NDrop => object_loop r n obj m'
            | NErr => object_loop r n obj m'     (* `_ = normalizeAndSaveValue(...)` *)
            end
        | Err => (Err, m')
        | Panic => (Panic, m')
        end
    end.

  (* parseArray's inner loop over the nodes matched for one child: Some = the extended array,
     None = the error / panic that ends the evaluation *)
  Fixpoint nodes_loop (c : comp) (ns : list path) (acc : list value) (m : memo)
    : (list value + res) * memo :=
    match ns with
    | [] => (inl acc, m)
    | n :: r =>
        let '(rv, m') := c_ev c n m in
        match rv with
        | Ok v =>
            match norm_of (c_info c) v with
            | NSave v' => nodes_loop c r (acc ++ [v']) m'
            | NDrop => nodes_loop c r acc m'
            | NErr => nodes_loop c r acc m'
            end
        | _ => (inr rv, m')
        end
    end.

  (* parseArray's loop over decl.children *)
  Fixpoint array_loop (cs : list (bytes * comp)) (p : path) (acc : list value) (m : memo) : res * memo :=
    match cs with
    | [] => (Ok (VList acc), m)
    | (_, c) :: r =>
        let '(xr, m1) := compute_xpath (c_info c) (c_xdyn c) p m in
        match xr with
        | XFail => array_loop r p acc m1          (* `continue` *)
        | XPanic => (Panic, m1)
        | XOk x =>
            match match_all x p with
            | None => (Err, m1)
            | Some ns =>
                let '(o, m2) := nodes_loop c ns acc m1 in
                match o with
                | inl acc' => array_loop r p acc' m2
                | inr rv => (rv, m2)
                end
            end
        end
    end.

  (* prepArgValues' loop over customFuncDecl.Args *)
  Fixpoint args_loop (s : fsig) (cs : list (bytes * comp)) (i : nat) (n : path) (acc : list value) (m : memo)
    : (list value + res) * memo :=
    match cs with
    | [] => (inl acc, m)
    | (_, c) :: r =>
        let '(rv, m') := c_ev c n m in
        match rv with
        | Ok v =>
            match arg_type s i with
            | None => (inr Panic, m')    (* unreachable after the arity check *)
            | Some t =>
                if is_nil v then args_loop s r (S i) n (acc ++ [zero_of t]) m'
                else if assignable v t then args_loop s r (S i) n (acc ++ [v]) m'
                else (inr Err, m')
            end
        | _ => (inr rv, m')
        end
    end.

  (* invokeCustomFunc *)
  Definition invoke (i : einfo) (cs : list (bytes * comp)) (n : path) (m : memo) : res * memo :=
    match p_fname (e_pub i) with
    | None => (Panic, m)                      (* nil dereference of decl.CustomFunc *)
    | Some name =>
        match fsigs name with
        | None => (Panic, m)                  (* reflect.TypeOf(nil).NumIn() *)
        | Some s =>
            let nfix := length (s_fixed s) in
            let nargs := length cs in
            if Nat.ltb nargs nfix || (Nat.ltb nfix nargs && negb (is_some (s_variadic s)))
            then (Err, m)
            else
              let '(o, m') := args_loop s cs 0 n [] m in
              match o with
              | inr rv => (rv, m')
              | inl args =>
                  match fcall name n args with
                  | CfOk v => (Ok v, m')
                  | CfErr => if p_ignore (e_pub i) then (Ok VNil, m') else (Err, m')
                  end
              end
        end
    end.

  Definition then_norm (i : einfo) (rm : res * memo) : res * memo :=
    match fst rm with
    | Ok v => (norm_ret i v, snd rm)
    | _ => rm
    end.

  (* the switch of ParseNode *)
  Definition dispatch (i : einfo) (xd : option ev) (cs : list (bytes * comp)) : ev :=
    match p_kind (e_pub i) with
    | KConst => fun p m =>
        match p_const (e_pub i) with
        | Some c => (norm_ret i (VStr c), m)
        | None => (Panic, m)
        end
    | KExternal => fun p m =>
        match p_external (e_pub i) with
        | Some name => match ext name with
                       | Some v => (norm_ret i (VStr v), m)
                       | None => (Err, m)
                       end
        | None => (Panic, m)
        end
    | KField =>
        anchored i xd (fun n m =>
          match inner_text_at root n with
          | Some s => (norm_ret i (VStr s), m)
          | None => (Panic, m)                 (* a node outside the tree: never returned by an engine *)
          end)
    | KObject => anchored i xd (fun n m => then_norm i (object_loop cs n [] m))
    | KArray => fun p m => then_norm i (array_loop cs p [] m)
    | KCustomFunc => anchored i xd (fun n m => then_norm i (invoke i cs n m))
    | KCustomParse =>
        anchored i xd (fun n m =>
          match p_parse (e_pub i) with
          | None => (Panic, m)
          | Some name => match pcall name n with
                         | CfOk v => (norm_ret i v, m)
                         | CfErr => (Err, m)
                         end
          end)
    | KTemplate => fun p m => (Err, m)         (* "unexpected decl kind" *)
    end.

  (* ParseNode *)
  Definition parse_node (i : einfo) (xd : option ev) (cs : list (bytes * comp)) : ev :=
    fun p m =>
      if disable then dispatch i xd cs p m
      else
        let key := (nid p, e_hash i, if legacy_key then true else e_needed i) in
        match memo_get key m with
        | Some v => (Ok v, m)
        | None =>
            let '(r, m') := dispatch i xd cs p m in
            match r with
            | Ok v => (r, (key, v) :: m')
            | _ => (r, m')
            end
        end.

  Fixpoint compile (d : vdecl) : comp :=
    let 'VD i x ks := d in
    let xd := match x with Some q => Some (c_ev (compile q)) | None => None end in
    let e := einfo_of i (is_some x) in
    mkComp e xd (parse_node e xd (map (fun c => (kid_key (p_kind (v_pub i)) c, compile c)) ks)).

  Definition eval (d : vdecl) : ev := c_ev (compile d).
End Eval.

Arguments mkComp {K}. Arguments c_info {K}. Arguments c_xdyn {K}. Arguments c_ev {K}.

(* the two configurations of the transform cache *)
Section Runs.
  Variable root : tree.
  Variable query : bytes -> path -> option (list path).
  Variable ext : bytes -> option bytes.
  Variable fsigs : bytes -> option fsig.
  Variable fcall : bytes -> path -> list value -> cfres.
  Variable pcall : bytes -> path -> cfres.

  (* cache on, with node IDs given by [nid], starting from the memo [m] *)
  Definition eval_cached {K} (K_eqb : K -> K -> bool) (nid : path -> K) (d : vdecl) (p : path)
             (m : memo K) : res * memo K :=
    eval root query ext fsigs fcall pcall K K_eqb nid false false d p m.

  (* cache off: node IDs are never looked at, the memo stays empty *)
  Definition eval_nocache (d : vdecl) (p : path) : res :=
    fst (eval root query ext fsigs fcall pcall unit (fun _ _ => true) (fun _ => tt) true false d p []).
End Runs.

(* ============================================================================================ *)
(* The documented evaluation (doc/transforms.md, doc/xpath.md), written on the declarations as
   the schema author wrote them.  Independent of validate / ParseNode: no fqdn, no hash, no
   parent links, no cache, one normalisation per declaration, templates by substitution.

   D1  A template reference stands for the referenced declaration with the reference's own
       xpath / xpath_dynamic (if any) put on it; FINAL_OUTPUT is itself such a declaration.
   D2  Cursor: evaluation of FINAL_OUTPUT starts at the record; the cursor stays unchanged until
       an anchoring xpath / xpath_dynamic is met.  On field, object, custom_func (and a template
       standing for one) the xpath must select at most one node: none -> the result is omitted,
       one -> it becomes the cursor, several -> the record fails.  Directly under array every
       selected node contributes one element, in document order; the element is evaluated with
       that node as cursor.  FINAL_OUTPUT's own xpath is the record filter, not re-applied.
       xpath_dynamic: the xpath is the (string) result of the given declaration at the cursor.
   D3  const / external / field yield their text; object composes its children under their
       names; array concatenates its elements' contributions in declared order; custom_func
       receives its evaluated arguments positionally, an absent value as the parameter type's
       zero value; a failing function fails the record unless ignore_error (then: no value).
   D4  type casts (or fails the record); strings are trimmed unless no_trim; a null or empty
       result is omitted unless keep_empty_or_null.                                             *)

(* what a declaration contributes to its context *)
Inductive sres := SVal (v : value) | SOmit | SFail.

Definition to_res (s : sres) : res :=
  match s with SVal v => Ok v | SOmit => Ok VNil | SFail => Err end.

(* D4 *)
Definition spec_norm (notrim keep : bool) (rt : option rtype) (v : value) : sres :=
  let keep_or_omit v := if keep then SVal v else SOmit in
  match v with
  | VNil => keep_or_omit VNil
  | _ =>
      let v1 := match v with VStr s => if notrim then v else VStr (trim_space s) | _ => v end in
      match (match rt with Some t => convert v1 t | None => Some v1 end) with
      | None => SFail
      | Some v2 => if is_empty v2 then keep_or_omit v2 else SVal v2
      end
  end.

(* D1: substitution of templates.  None = the declarations are not well formed (missing
   template, xpath on both the reference and the template, a reference cycle). *)
Definition spec_is_template (d : decl) : option bytes :=
  let 'Decl c e _ _ fn _ _ pa tm ob ar _ _ _ := d in
  match c, e, fn, pa, ob, ar with
  | None, None, None, None, None, None => tm
  | _, _, _, _, _, _ => None
  end.

Section OAll.
  Context {A B : Type} (f : A -> option B).
  Fixpoint oall (l : list A) : option (list B) :=
    match l with
    | [] => Some []
    | a :: r => match f a, oall r with
                | Some b, Some r' => Some (b :: r')
                | _, _ => None
                end
    end.
End OAll.

Section Expand.
  Variable ds : list (bytes * decl).

  Section Go.
    (* substitution inside the body of a referenced template *)
    Variable jump : decl -> option decl.

    Fixpoint xgo (d : decl) {struct d} : option decl :=
      let 'Decl c e x xd fn args ig pa tm ob ar ty nt kp := d in
      if (is_some x && is_some xd)%bool then None else
      match (match xd with
             | Some q => match xgo q with Some q' => Some (Some q') | None => None end
             | None => Some None
             end) with
      | None => None
      | Some xd' =>
          match spec_is_template d with
          | Some name =>
              match lookup name ds with
              | None => None
              | Some body =>
                  if (d_isx body && d_isx d)%bool then None
                  else jump (if d_isx d then with_xpath_of d body else body)
              end
          | None =>
              (* only the part that makes the declaration what it is (the first field set, in the
                 documented order const, external, custom_func, custom_parse, object, array) is
                 kept and substituted in; anything else the author may have left on it is void *)
              match c, e, fn, pa, ob, ar with
              | Some _, _, _, _, _, _ =>
                  Some (Decl c None x xd' None [] ig None None None None ty nt kp)
              | None, Some _, _, _, _, _ =>
                  Some (Decl None e x xd' None [] ig None None None None ty nt kp)
              | None, None, Some _, _, _, _ =>
                  match oall xgo args with
                  | Some a => Some (Decl None None x xd' fn a ig None None None None ty nt kp)
                  | None => None
                  end
              | None, None, None, Some _, _, _ =>
                  Some (Decl None None x xd' None [] ig pa None None None ty nt kp)
              | None, None, None, None, Some l, _ =>
                  match oall (fun ka => let '(k, a) := ka in
                                        match xgo a with Some a' => Some (k, a') | None => None end) l with
                  | Some l' => Some (Decl None None x xd' None [] ig None None (Some l') None ty nt kp)
                  | None => None
                  end
              | None, None, None, None, None, Some l =>
                  match oall xgo l with
                  | Some l' => Some (Decl None None x xd' None [] ig None None None (Some l') ty nt kp)
                  | None => None
                  end
              | None, None, None, None, None, None =>
                  Some (Decl None None x xd' None [] ig None None None None ty nt kp)
              end
          end
      end.
  End Go.

  Fixpoint expand (fuel : nat) : decl -> option decl :=
    match fuel with
    | O => fun _ => None
    | S f => xgo (expand f)
    end.

  Definition expand_final : option decl :=
    match lookup FINAL_OUTPUT ds with
    | Some d => expand (S (length ds)) d
    | None => None
    end.
End Expand.

(* D3, composition of the children's contributions (helpers of spec_tf) *)
Section ObjAll.
  Variable F : decl -> sres.          (* contribution of a member at the cursor *)
  Fixpoint obj_all (l : list (bytes * decl)) (o : list (bytes * value)) : option (list (bytes * value)) :=
    match l with
    | [] => Some o
    | (k, a) :: r =>
        match F a with
        | SFail => None
        | SOmit => obj_all r o
        | SVal v => obj_all r (obj_set k v o)
        end
    end.
End ObjAll.

Section ArrAll.
  Variable sel : bytes -> option (list path).                        (* the nodes an xpath selects from the cursor *)
  Variable G : decl -> option bytes * (path -> sres).                (* element: xpath in force, contribution at a node *)
  Fixpoint arr_each (f : path -> sres) (ns : list path) (acc : list value) : option (list value) :=
    match ns with
    | [] => Some acc
    | n :: ns' =>
        match f n with
        | SFail => None
        | SOmit => arr_each f ns' acc
        | SVal v => arr_each f ns' (acc ++ [v])
        end
    end.
  Fixpoint arr_all (l : list decl) (acc : list value) : option (list value) :=
    match l with
    | [] => Some acc
    | a :: r =>
        match fst (G a) with
        | None => arr_all r acc               (* the dynamic xpath has no value: no element *)
        | Some xp =>
            match sel xp with
            | None => None
            | Some ns => match arr_each (snd (G a)) ns acc with
                         | None => None
                         | Some acc' => arr_all r acc'
                         end
            end
        end
    end.
End ArrAll.

Section Spec.
  Variable root : tree.
  Variable query : bytes -> path -> option (list path).
  Variable ext : bytes -> option bytes.
  Variable fsigs : bytes -> option fsig.
  Variable fcall : bytes -> path -> list value -> cfres.
  Variable pcall : bytes -> path -> cfres.

  (* the nodes an xpath selects from a cursor ("." is the cursor itself) *)
  Definition select (x : bytes) (p : path) : option (list path) :=
    if bytes_eqb x (bs ".") then Some [p] else query x p.

  (* D2: the xpath string in force, given the result of the xpath_dynamic declaration.
     A static xpath that is blank, or no xpath at all, leaves the cursor where it is. *)
  Definition spec_xpath (x : option bytes) (xd : option sres) : option bytes :=
    match x, xd with
    | Some s, _ => if is_nonblank s then Some s
                   else match xd with
                        | Some (SVal (VStr t)) => if is_nonblank t then Some t else None
                        | Some _ => None
                        | None => Some (bs ".")
                        end
    | None, Some (SVal (VStr t)) => if is_nonblank t then Some t else None
    | None, Some _ => None
    | None, None => Some (bs ".")
    end.

  (* D3: arguments, positionally *)
  Fixpoint spec_args (s : fsig) (i : nat) (vs : list sres) : option (list value) :=
    match vs with
    | [] => Some []
    | a :: r =>
        match arg_type s i with
        | None => None
        | Some t =>
            let v := match a with SVal v => v | _ => VNil end in
            match a with
            | SFail => None
            | _ =>
                let v' := if is_nil v then Some (zero_of t)
                          else if assignable v t then Some v else None in
                match v', spec_args s (S i) r with
                | Some x, Some xs => Some (x :: xs)
                | _, _ => None
                end
            end
        end
    end.

  (* D2: the cursor a declaration is evaluated at.  None = the record fails, Some None = no node
     (null result), Some (Some n) = node n.  [anchor] = apply the declaration's own xpath (false
     for FINAL_OUTPUT and for an element of an array, which the array already matched);
     [xdres] = the result of its xpath_dynamic declaration, if it has one. *)
  Definition spec_cursor (anchor : bool) (x : option bytes) (xdres : option sres) (p : path)
    : option (option path) :=
    if negb anchor then Some (Some p)
    else if negb (is_some x || is_some xdres) then Some (Some p)
    else
      match spec_xpath x xdres with
      | None => Some None
      | Some xp =>
          match select xp p with
          | None => None
          | Some [] => Some None
          | Some [n] => Some (Some n)
          | Some _ => None
          end
      end.

  Definition spec_at (norm : value -> sres) (cur : option (option path)) (f : path -> sres) : sres :=
    match cur with
    | None => SFail
    | Some None => norm VNil        (* no node: a null result (D4 decides whether it shows) *)
    | Some (Some n) => f n
    end.

  (* D3 for custom_func, given the contributions of the argument declarations *)
  Definition spec_call (norm : value -> sres) (name : bytes) (ig : bool) (n : path) (args : list sres) : sres :=
    match fsigs name with
    | None => SFail
    | Some s =>
        let nfix := length (s_fixed s) in
        let nargs := length args in
        if Nat.ltb nargs nfix || (Nat.ltb nfix nargs && negb (is_some (s_variadic s))) then SFail
        else
          match spec_args s 0 args with
          | None => SFail
          | Some vs =>
              match fcall name n vs with
              | CfOk v => norm v
              | CfErr => if ig then norm VNil else SFail
              end
          end
    end.

  (* evaluation of a template-free declaration *)
  Fixpoint spec_tf (d : decl) (anchor : bool) (p : path) {struct d} : sres :=
    let 'Decl c e x xd fn args ig pa tm ob ar ty nt kp := d in
    let norm := spec_norm nt kp ty in
    let cur := spec_cursor anchor x (match xd with Some q => Some (spec_tf q true p) | None => None end) p in
    match c, e, fn, pa, ob, ar with
    | Some text, _, _, _, _, _ => norm (VStr text)
    | None, Some name, _, _, _, _ =>
        match ext name with Some v => norm (VStr v) | None => SFail end
    | None, None, Some name, _, _, _ =>
        spec_at norm cur (fun n => spec_call norm name ig n (map (fun a => spec_tf a true n) args))
    | None, None, None, Some name, _, _ =>
        spec_at norm cur (fun n => match pcall name n with CfOk v => norm v | CfErr => SFail end)
    | None, None, None, None, Some kids, _ =>
        spec_at norm cur (fun n =>
          match obj_all (fun a => spec_tf a true n) kids [] with
          | None => SFail
          | Some o => norm (VObj o)
          end)
    | None, None, None, None, None, Some elems =>
        match arr_all (fun xp => select xp p)
                      (fun a => let 'Decl _ _ ax axd _ _ _ _ _ _ _ _ _ _ := a in
                                (spec_xpath ax (match axd with Some q => Some (spec_tf q true p) | None => None end),
                                 fun n => spec_tf a false n))
                      elems [] with
        | None => SFail
        | Some vs => norm (VList vs)
        end
    | None, None, None, None, None, None =>
        match tm with
        | Some _ => SFail       (* not template-free *)
        | None =>
            spec_at norm cur (fun n =>
              match inner_text_at root n with Some s => norm (VStr s) | None => SFail end)
        end
    end.

  Definition eval_spec (ds : list (bytes * decl)) (p : path) : option res :=
    match expand_final ds with
    | Some d => Some (to_res (spec_tf d false p))
    | None => None
    end.
End Spec.

(* ============================================================================================ *)
(* Executable instances for running the model: the custom functions the harness registers, the
   fragment xpath engine, node IDs = paths. *)
Definition beq (a : bytes) (s : string) : bool := bytes_eqb a (bs s).

Definition std_sigs (name : bytes) : option fsig :=
  if beq name "concat" then Some (mkSig [] (Some TString))
  else if beq name "coalesce" then Some (mkSig [] (Some TString))
  else if beq name "lower" then Some (mkSig [TString] None)
  else if beq name "upper" then Some (mkSig [TString] None)
  else if beq name "verif_add" then Some (mkSig [TInt64; TInt64] None)
  else if beq name "verif_neg" then Some (mkSig [TFloat64] None)
  else if beq name "verif_not" then Some (mkSig [TBool] None)
  else if beq name "verif_echo" then Some (mkSig [TIface] None)
  else if beq name "verif_count" then Some (mkSig [] (Some TIface))
  else if beq name "verif_nonempty" then Some (mkSig [TString] None)
  else if beq name "verif_text" then Some (mkSig [] None)
  else if beq name "verif_len" then Some (mkSig [TString] None)
  else if beq name "verif_pick" then Some (mkSig [TInt64] (Some TString))
  else if beq name "verif_join" then Some (mkSig [TString] (Some TIface))
  else None.

Definition ascii_lower (b : byte) : byte :=
  let n := Byte.to_N b in if (N.leb 65 n && N.leb n 90)%bool then byte_of_N (n + 32) else b.
Definition ascii_upper (b : byte) : byte :=
  let n := Byte.to_N b in if (N.leb 97 n && N.leb n 122)%bool then byte_of_N (n - 32) else b.

Definition strs_of (l : list value) : list bytes :=
  map (fun v => match v with VStr s => s | _ => [] end) l.

(* verif_join(sep, parts...): strings and the string elements of arrays, joined; nil skipped *)
Fixpoint join_parts (l : list value) : option (list bytes) :=
  match l with
  | [] => Some []
  | VNil :: r => join_parts r
  | VStr s :: r => option_map (cons s) (join_parts r)
  | VList es :: r =>
      match (fix strs (es : list value) : option (list bytes) :=
               match es with
               | [] => Some []
               | VStr s :: t => option_map (cons s) (strs t)
               | _ => None
               end) es, join_parts r with
      | Some a, Some b => Some (a ++ b)
      | _, _ => None
      end
  | _ => None
  end.
Fixpoint join_with (sep : bytes) (l : list bytes) : bytes :=
  match l with
  | [] => []
  | [s] => s
  | s :: r => s ++ sep ++ join_with sep r
  end.

Definition std_call (root : tree) (name : bytes) (p : path) (args : list value) : cfres :=
  if beq name "concat" then CfOk (VStr (concat (strs_of args)))
  else if beq name "coalesce" then
    CfOk (VStr (match find (fun s => match s with [] => false | _ => true end) (strs_of args) with
                | Some s => s | None => [] end))
  else if beq name "lower" then
    match args with [VStr s] => CfOk (VStr (map ascii_lower s)) | _ => CfErr end
  else if beq name "upper" then
    match args with [VStr s] => CfOk (VStr (map ascii_upper s)) | _ => CfErr end
  else if beq name "verif_add" then
    match args with [VInt a; VInt b] => CfOk (VInt (a + b)) | _ => CfErr end
  else if beq name "verif_neg" then
    match args with [VFloat (Flt m e)] => CfOk (VFloat (Flt (- m) e)) | _ => CfErr end
  else if beq name "verif_not" then
    match args with [VBool b] => CfOk (VBool (negb b)) | _ => CfErr end
  else if beq name "verif_echo" then
    match args with [v] => CfOk v | _ => CfErr end
  else if beq name "verif_count" then
    CfOk (VInt (Z.of_nat (length (filter (fun v => negb (is_nil v)) args))))
  else if beq name "verif_nonempty" then
    match args with [VStr []] => CfErr | [VStr s] => CfOk (VStr s) | _ => CfErr end
  else if beq name "verif_text" then
    match inner_text_at root p with Some s => CfOk (VStr s) | None => CfErr end
  else if beq name "verif_len" then
    match args with [VStr s] => CfOk (VInt (Z.of_nat (length s))) | _ => CfErr end
  else if beq name "verif_join" then
    match args with
    | VStr sep :: rest => match join_parts rest with Some l => CfOk (VStr (join_with sep l)) | None => CfErr end
    | _ => CfErr
    end
  else if beq name "verif_pick" then
    match args with
    | VInt i :: rest =>
        if (Z.ltb i 0 || Z.leb (Z.of_nat (length rest)) i)%bool then CfErr
        else match nth_error (strs_of rest) (Z.to_nat i) with Some s => CfOk (VStr s) | None => CfErr end
    | _ => CfErr
    end
  else CfErr.

Definition std_fexists (name : bytes) : bool := is_some (std_sigs name).
Definition no_pcall (_ : bytes) (_ : path) : cfres := CfErr.

(* ---- the correspondence case -------------------------------------------------------------------- *)
(* One schema and the records it was run on.  Inputs: the declarations as generated, the record
   trees.  Observed from the implementation: the validated FINAL_OUTPUT as dumped through the
   hooks (structure, kinds, fqdns, parent links, child order; Go's hash classes separately) and
   what Transform.Read returned for each record. *)
Record c02rec := mkRec { r_root : tree; r_cursor : path; r_out : oout }.
Record c02case := mkCase {
  cs_decls : list (bytes * decl);
  cs_dump : option vdecl;     (* None = the implementation rejected the schema *)
  cs_classes : list N;
  cs_ext : list (bytes * bytes);
  cs_recs : list c02rec }.

Definition check_rec (ds : list (bytes * decl)) (v : vdecl) (ext : bytes -> option bytes) (r : c02rec) : bool :=
  let root := r_root r in
  let q := frag_query root in
  let call := std_call root in
  let '(rc, _) := eval_cached root q ext std_sigs call no_pcall path_eqb (fun p => p) v (r_cursor r) [] in
  res_obs_eqb rc (r_out r)
  && res_obs_eqb (eval_nocache root q ext std_sigs call no_pcall v (r_cursor r)) (r_out r)
  && match eval_spec root q ext std_sigs call no_pcall ds (r_cursor r) with
     | Some rs => res_obs_eqb rs (r_out r)
     | None => false
     end.

Definition check_case (c : c02case) : bool :=
  match cs_dump c with
  | None => match validate (cs_decls c) std_fexists (fun _ => false) with VErr => true | _ => false end
  | Some dump =>
      let v := rehash dump in
      let subs := subdecls v in
      wf_b true v
      && Nat.eqb (length subs) (length (cs_classes c))
      && classes_ok (combine (map (fun d => v_hash (vd_info d)) subs) (cs_classes c))
      && match validate (cs_decls c) std_fexists (fun _ => false) with
         | VOk mv => vdecl_eqb mv v
         | _ => false
         end
      && forallb (check_rec (cs_decls c) v (fun k => lookup k (cs_ext c))) (cs_recs c)
  end.
