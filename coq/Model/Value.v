(* C02 model, layer 1: result values and normalisation.
   Transcribes extensions/omniv21/transform/value.go (isEmpty, resultTypeConversion through the
   extracted table Gen/Conv.v, normalizeAndSaveValue, normalizeAndReturnValue) together with the
   stdlib functions it calls: strings.TrimSpace, strconv.ParseInt(s,10,64), strconv.ParseBool,
   strconv.ParseFloat / fmt %v of float64 for the decimal-literal class of DESIGN section 9.
   Executable definitions only; proofs are in Proofs/Value.v. *)
From Coq Require Import String List ZArith NArith Bool.
From Coq.Strings Require Import Byte.
Import ListNotations.
From OV Require Import Base.Bytes Base.Cases Gen.Conv.
Local Open Scope Z_scope.

(* ---- values ------------------------------------------------------------------------------- *)
(* float64 restricted to the decimal class: m * 10^e, canonical (m = 0 -> e = 0; otherwise m has
   no trailing zero).  Within <= 15 significant digits this identifies float64 values exactly. *)
Inductive flt := Flt (m e : Z).

(* The dynamic Go values ParseNode can return: nil, string, int64, float64, bool,
   []interface{} and map[string]interface{}.  VList [] is the nil slice parseArray returns when
   no element was saved (the only empty slice the evaluator itself creates).  VObj is kept
   key-sorted without duplicate keys (a Go map; json.Marshal sorts keys). *)
Inductive value :=
| VNil
| VStr (s : bytes)
| VInt (z : Z)
| VFloat (f : flt)
| VBool (b : bool)
| VList (l : list value)
| VObj (kvs : list (bytes * value)).

(* ParseNode outcome: value, ordinary error (fails this record only), or a Go panic. *)
Inductive res := Ok (v : value) | Err | Panic.

Definition flt_eqb (a b : flt) : bool :=
  let 'Flt m e := a in let 'Flt m' e' := b in Z.eqb m m' && Z.eqb e e'.

Fixpoint value_eqb (a b : value) : bool :=
  match a, b with
  | VNil, VNil => true
  | VStr s, VStr s' => bytes_eqb s s'
  | VInt z, VInt z' => Z.eqb z z'
  | VFloat f, VFloat f' => flt_eqb f f'
  | VBool x, VBool y => Bool.eqb x y
  | VList l, VList l' =>
      (fix go (xs ys : list value) : bool :=
         match xs, ys with
         | [], [] => true
         | x :: xs', y :: ys' => value_eqb x y && go xs' ys'
         | _, _ => false
         end) l l'
  | VObj l, VObj l' =>
      (fix go (xs ys : list (bytes * value)) : bool :=
         match xs, ys with
         | [], [] => true
         | (k, x) :: xs', (k', y) :: ys' => bytes_eqb k k' && value_eqb x y && go xs' ys'
         | _, _ => false
         end) l l'
  | _, _ => false
  end.

Definition res_eqb (a b : res) : bool :=
  match a, b with
  | Ok x, Ok y => value_eqb x y
  | Err, Err => true
  | Panic, Panic => true
  | _, _ => false
  end.

(* lexicographic order on byte strings (Go string comparison) *)
Fixpoint bytes_ltb (a b : bytes) : bool :=
  match a, b with
  | [], [] => false
  | [], _ :: _ => true
  | _ :: _, [] => false
  | x :: a', y :: b' =>
      if N.ltb (Byte.to_N x) (Byte.to_N y) then true
      else if N.ltb (Byte.to_N y) (Byte.to_N x) then false
      else bytes_ltb a' b'
  end.

(* obj[k] = v on a Go map, represented key-sorted *)
Fixpoint obj_set (k : bytes) (v : value) (o : list (bytes * value)) : list (bytes * value) :=
  match o with
  | [] => [(k, v)]
  | (k', v') :: r =>
      if bytes_eqb k k' then (k, v) :: r
      else if bytes_ltb k k' then (k, v) :: o
      else (k', v') :: obj_set k v r
  end.

(* ---- strings.TrimSpace -------------------------------------------------------------------- *)
(* unicode.IsSpace: '\t' '\n' '\v' '\f' '\r' ' ' U+0085 U+00A0 U+1680 U+2000..U+200A U+2028 U+2029
   U+202F U+205F U+3000, as their UTF-8 encodings.  A string starts (ends) with a space rune
   exactly when one of these encodings is a prefix (suffix): utf8.DecodeRune(InString) of any
   other prefix yields a different rune or RuneError. *)
Definition ws_encodings : list bytes :=
  [ [x09]; [x0a]; [x0b]; [x0c]; [x0d]; [x20]; [xc2; x85]; [xc2; xa0]; [xe1; x9a; x80];
    [xe2; x80; x80]; [xe2; x80; x81]; [xe2; x80; x82]; [xe2; x80; x83]; [xe2; x80; x84];
    [xe2; x80; x85]; [xe2; x80; x86]; [xe2; x80; x87]; [xe2; x80; x88]; [xe2; x80; x89];
    [xe2; x80; x8a]; [xe2; x80; xa8]; [xe2; x80; xa9]; [xe2; x80; xaf]; [xe2; x81; x9f];
    [xe3; x80; x80] ].

Fixpoint strip_prefix (p s : bytes) : option bytes :=
  match p, s with
  | [], _ => Some s
  | x :: p', y :: s' => if Byte.eqb x y then strip_prefix p' s' else None
  | _ :: _, [] => None
  end.

Fixpoint strip_any (encs : list bytes) (s : bytes) : option bytes :=
  match encs with
  | [] => None
  | e :: r => match strip_prefix e s with Some t => Some t | None => strip_any r s end
  end.

Fixpoint trim_left_with (encs : list bytes) (fuel : nat) (s : bytes) : bytes :=
  match fuel with
  | O => s
  | S f => match strip_any encs s with Some t => trim_left_with encs f t | None => s end
  end.

Definition trim_left (s : bytes) : bytes := trim_left_with ws_encodings (length s) s.
Definition trim_right (s : bytes) : bytes :=
  rev (trim_left_with (map (@rev byte) ws_encodings) (length s) (rev s)).
Definition trim_space (s : bytes) : bytes := trim_right (trim_left s).

(* strs.IsStrNonBlank *)
Definition is_nonblank (s : bytes) : bool :=
  match trim_space s with [] => false | _ => true end.

(* ---- strconv.ParseInt(s, 10, 64) ----------------------------------------------------------- *)
Definition digit_val (b : byte) : option Z :=
  let n := Byte.to_N b in
  if (N.leb 48 n && N.leb n 57)%bool then Some (Z.of_N n - 48) else None.

Fixpoint parse_digits (acc : Z) (s : bytes) : option Z :=
  match s with
  | [] => Some acc
  | b :: r => match digit_val b with Some d => parse_digits (acc * 10 + d) r | None => None end
  end.

Definition parse_uint (s : bytes) : option Z :=
  match s with [] => None | _ => parse_digits 0 s end.

Definition int64_min : Z := - 9223372036854775808.
Definition int64_max : Z := 9223372036854775807.
Definition in_int64 (z : Z) : bool := Z.leb int64_min z && Z.leb z int64_max.

Definition parse_int (s : bytes) : option Z :=
  let '(neg, body) :=
    match s with
    | x2b :: r => (false, r)          (* '+' *)
    | x2d :: r => (true, r)           (* '-' *)
    | _ => (false, s)
    end in
  match parse_uint body with
  | Some n => let z := if neg then - n else n in if in_int64 z then Some z else None
  | None => None
  end.

(* ---- strconv.ParseBool ---------------------------------------------------------------------- *)
Definition parse_bool (s : bytes) : option bool :=
  if existsb (bytes_eqb s) [hx "31"%string; hx "74"%string; hx "54"%string; hx "54525545"%string; hx "74727565"%string; hx "54727565"%string]
  then Some true
  else if existsb (bytes_eqb s) [hx "30"%string; hx "66"%string; hx "46"%string; hx "46414c5345"%string; hx "66616c7365"%string; hx "46616c7365"%string]
  then Some false
  else None.

(* ---- decimal printing ------------------------------------------------------------------------ *)
Fixpoint dec_digits (fuel : nat) (n : N) (acc : bytes) : bytes :=
  match fuel with
  | O => acc
  | S f =>
      let d := byte_of_N (48 + N.modulo n 10) in
      if N.ltb n 10 then d :: acc else dec_digits f (N.div n 10) (d :: acc)
  end.
Definition N_to_dec (n : N) : bytes := dec_digits (S (N.to_nat (N.log2 n))) n [].
Definition Z_to_dec (z : Z) : bytes :=
  if Z.ltb z 0 then x2d :: N_to_dec (Z.to_N (- z)) else N_to_dec (Z.to_N z).

(* ---- float64, decimal class ------------------------------------------------------------------ *)
Fixpoint strip_zeros (fuel : nat) (m e : Z) : flt :=
  match fuel with
  | O => Flt m e
  | S f => if Z.eqb m 0 then Flt 0 0
           else if Z.eqb (Z.rem m 10) 0 then strip_zeros f (Z.quot m 10) (e + 1) else Flt m e
  end.
Definition flt_norm (m e : Z) : flt := strip_zeros (S (Z.to_nat (Z.log2 (Z.abs m)))) m e.

(* mantissa digits with at most one '.'; returns (mantissa, number of digits after the point, saw
   a digit).  As in Go's floating-point literal syntax an underscore may separate two digits
   (strconv's underscoreOK): "1_000" is 1000, "1_", "_1", "1__0", "1_.5" are errors. *)
Definition is_digit_byte (b : byte) : bool := match digit_val b with Some _ => true | None => false end.
Fixpoint parse_mant_go (s : bytes) (acc : Z) (frac : Z) (dot digit prevd : bool) : option (Z * Z * bool) :=
  match s with
  | [] => Some (acc, frac, digit)
  | b :: r =>
      match digit_val b with
      | Some d => parse_mant_go r (acc * 10 + d) (if dot then frac + 1 else frac) dot true true
      | None =>
          if (Byte.eqb b x2e && negb dot)%bool then parse_mant_go r acc frac true digit false
          else if Byte.eqb b x5f then
            match r with
            | c :: _ => if (prevd && is_digit_byte c)%bool then parse_mant_go r acc frac dot digit false else None
            | [] => None
            end
          else None
      end
  end.
Definition parse_mant (s : bytes) (acc : Z) (frac : Z) (dot digit : bool) : option (Z * Z * bool) :=
  parse_mant_go s acc frac dot digit false.

(* strconv.ParseFloat(s, 64) on decimal literals [+-]digits[.digits][(e|E)[+-]digits] with at most
   15 significant digits (exact round trip) and |exponent| <= 30; None = error.  Hex / inf / nan
   forms, underscores and longer mantissas or exponents are outside the modelled class (DESIGN
   section 9) and also give None (the first three are exercised by the Go-side cast oracle). *)
(* split at the first 'e' / 'E' *)
Fixpoint split_exp (s : bytes) : bytes * option bytes :=
  match s with
  | [] => ([], None)
  | b :: r => if (Byte.eqb b x65 || Byte.eqb b x45)%bool then ([], Some r)
              else let '(m, e) := split_exp r in (b :: m, e)
  end.

(* the exponent part: [+-]digits, at least one digit; kept small (the modelled class) *)
Definition parse_exp (s : bytes) : option Z :=
  let '(neg, body) :=
    match s with
    | x2b :: r => (false, r)
    | x2d :: r => (true, r)
    | _ => (false, s)
    end in
  match parse_uint body with
  | Some n => if Z.leb n 30 then Some (if neg then - n else n) else None
  | None => None
  end.

Definition parse_float (s : bytes) : option flt :=
  let '(neg, body0) :=
    match s with
    | x2b :: r => (false, r)
    | x2d :: r => (true, r)
    | _ => (false, s)
    end in
  let '(body, ex) := split_exp body0 in
  match (match ex with Some e => parse_exp e | None => Some 0 end) with
  | None => None
  | Some ez =>
      match parse_mant body 0 0 false false with
      | Some (m, frac, true) =>
          let 'Flt m' e' := flt_norm m (ez - frac) in
          if Z.ltb (Z.abs m') 1000000000000000 then Some (Flt (if neg then - m' else m') e') else None
      | _ => None
      end
  end.

(* float64(int64) *)
Definition flt_of_int (z : Z) : flt := flt_norm z 0.
(* int64(float64): truncation toward zero *)
Definition int_of_flt (f : flt) : Z :=
  let 'Flt m e := f in if Z.leb 0 e then m * 10 ^ e else Z.quot m (10 ^ (- e)).

Definition zeros (n : nat) : bytes := repeat x30 n.
(* fmt.Sprintf("%v", float64) for 1e-4 <= |x| < 1e21 (the %f-shaped shortest form) *)
Definition fmt_float (f : flt) : bytes :=
  let 'Flt m e := f in
  let ds := N_to_dec (Z.to_N (Z.abs m)) in
  let body :=
    if Z.leb 0 e then ds ++ zeros (Z.to_nat e)
    else
      let k := Z.to_nat (- e) in
      let n := length ds in
      if Nat.ltb k n then firstn (n - k) ds ++ [x2e] ++ skipn (n - k) ds
      else [x30; x2e] ++ zeros (k - n) ++ ds in
  if Z.ltb m 0 then x2d :: body else body.

(* ---- value.go --------------------------------------------------------------------------------- *)
(* isEmpty (never called on nil: guarded by `v != nil &&`) *)
Definition is_empty (v : value) : bool :=
  match v with
  | VStr [] | VList [] | VObj [] => true
  | _ => false
  end.

Definition is_nil (v : value) : bool := match v with VNil => true | _ => false end.

(* reflect.ValueOf(v).Kind() *)
Definition rkind_of (v : value) : rkind :=
  match v with
  | VNil => RkInvalid
  | VStr _ => RkString
  | VInt _ => RkInt64
  | VFloat _ => RkFloat64
  | VBool _ => RkBool
  | VList _ => RkSlice
  | VObj _ => RkMap
  end.

Definition bool_str (b : bool) : bytes := if b then hx "74727565"%string else hx "66616c7365"%string.

(* the conv* helpers; None = the helper returns an error *)
Definition apply_conv (c : conv) (v : value) : option value :=
  match c, v with
  | CvId, _ => Some v
  | CvStrToInt, VStr s => option_map VInt (parse_int s)
  | CvStrToFloat, VStr s => option_map VFloat (parse_float s)
  | CvStrToBool, VStr s => option_map VBool (parse_bool s)
  | CvIntToFloat, VInt z => Some (VFloat (flt_of_int z))
  | CvFloatToInt, VFloat f => Some (VInt (int_of_flt f))
  | CvToStr, VStr s => Some (VStr s)
  | CvToStr, VInt z => Some (VStr (Z_to_dec z))
  | CvToStr, VFloat f => Some (VStr (fmt_float f))
  | CvToStr, VBool b => Some (VStr (bool_str b))
  | _, _ => None
  end.

(* resultTypeConversion *)
Definition convert (v : value) (t : rtype) : option value :=
  apply_conv (conv_table (rkind_of v) t) v.

(* normalizeAndSaveValue: what is handed to [save] (NSave), nothing saved (NDrop), or an error *)
Inductive nres := NSave (v : value) | NDrop | NErr.

Definition check_to_save (keep : bool) (v : value) : nres :=
  if (negb (is_nil v) && negb (is_empty v))%bool then NSave v
  else if keep then NSave v else NDrop.

Definition normalize (notrim keep : bool) (rt : option rtype) (v : value) : nres :=
  let v1 := match v with
            | VStr s => if notrim then v else VStr (trim_space s)
            | _ => v
            end in
  match v1, rt with
  | VNil, _ => check_to_save keep v1
  | _, None => check_to_save keep v1
  | _, Some t => match convert v1 t with
                 | Some c => check_to_save keep c
                 | None => NErr
                 end
  end.

(* normalizeAndReturnValue *)
Definition normalize_ret (notrim keep : bool) (rt : option rtype) (v : value) : res :=
  match normalize notrim keep rt v with
  | NSave x => Ok x
  | NDrop => Ok VNil
  | NErr => Err
  end.

(* ---- what json.Marshal shows: the canonical observable ------------------------------------- *)
(* Numbers are compared as canonical decimals (JSON does not distinguish 3 from 3.0); the nil
   slice marshals to null. *)
Inductive obs :=
| ONull
| OStr (s : bytes)
| ONum (m e : Z)
| OBool (b : bool)
| OList (l : list obs)
| OObj (kvs : list (bytes * obs)).

Fixpoint obs_of (v : value) : obs :=
  match v with
  | VNil => ONull
  | VStr s => OStr s
  | VInt z => let 'Flt m e := flt_norm z 0 in ONum m e
  | VFloat (Flt m e) => ONum m e
  | VBool b => OBool b
  | VList [] => ONull
  | VList l => OList (map obs_of l)
  | VObj kvs => OObj (map (fun kv => (fst kv, obs_of (snd kv))) kvs)
  end.

Fixpoint obs_eqb (a b : obs) : bool :=
  match a, b with
  | ONull, ONull => true
  | OStr s, OStr s' => bytes_eqb s s'
  | ONum m e, ONum m' e' => Z.eqb m m' && Z.eqb e e'
  | OBool x, OBool y => Bool.eqb x y
  | OList l, OList l' =>
      (fix go (xs ys : list obs) : bool :=
         match xs, ys with
         | [], [] => true
         | x :: xs', y :: ys' => obs_eqb x y && go xs' ys'
         | _, _ => false
         end) l l'
  | OObj l, OObj l' =>
      (fix go (xs ys : list (bytes * obs)) : bool :=
         match xs, ys with
         | [], [] => true
         | (k, x) :: xs', (k', y) :: ys' => bytes_eqb k k' && obs_eqb x y && go xs' ys'
         | _, _ => false
         end) l l'
  | _, _ => false
  end.

(* observed outcome of one record: the decoded JSON, or a per-record failure *)
Inductive oout := OOk (o : obs) | OFailed.

Definition res_obs_eqb (r : res) (o : oout) : bool :=
  match r, o with
  | Ok v, OOk x => obs_eqb (obs_of v) x
  | Err, OFailed => true
  | _, _ => false
  end.
