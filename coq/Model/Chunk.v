(* C09 / C16 model: chunked (and failing) input sources and the byte-level reader layers that
   omniparser stacks on them.  Executable definitions only; proofs in Proofs/Chunk*.v. *)
From Coq Require Import List NArith Bool Arith.
From Coq.Strings Require Import Byte.
Import ListNotations.
From OV Require Import Base.Bytes Base.Cases Base.Utf8.

(* ---- io.Reader results --------------------------------------------------------------------- *)
(* Error values a byte-level layer can hand to its consumer.  IoFault e: the (non-EOF) error
   value e returned by the input io.Reader, identified by a harness-assigned id. *)
Inductive ioerr := IoEOF | IoFault (e : N) | IoNoProgress | IoTooLong.

Definition ioerr_eqb (a b : ioerr) : bool :=
  match a, b with
  | IoEOF, IoEOF | IoNoProgress, IoNoProgress | IoTooLong, IoTooLong => true
  | IoFault x, IoFault y => N.eqb x y
  | _, _ => false
  end.

(* One Read(p) result: the bytes stored into p (n = length) and the error. *)
Definition rres := (bytes * option ioerr)%type.

Definition rres_eqb (a b : rres) : bool :=
  bytes_eqb (fst a) (fst b) && opt_eqb ioerr_eqb (snd a) (snd b).

(* Partial operations. *)
Inductive outcome (A : Type) := Ok (a : A) | Panic (site : N) | OutOfFuel.
Arguments Ok {A}. Arguments Panic {A}. Arguments OutOfFuel {A}.

(* ---- sources ---------------------------------------------------------------------------------- *)
(* What the source does once its data is exhausted: io.EOF forever; the same error forever
   (persistent fault); one error once and then another one forever. *)
Inductive tail := TEof | TFault (e : N) | TOnce (e1 e2 : N).

Definition tail_err (t : tail) : ioerr :=
  match t with TEof => IoEOF | TFault e => IoFault e | TOnce e1 _ => IoFault e1 end.
Definition tail_next (t : tail) : tail :=
  match t with TOnce _ e2 => TFault e2 | _ => t end.

(* A source: the chunks it will offer in order (a chunk may be empty: Read returns (0, nil)),
   whether the last chunk is returned together with the first error of the tail, and the tail. *)
Record source := mkSrc { chunks : list bytes; with_last : bool; stail : tail }.

(* Read(p) with len(p) = cap: a chunk longer than cap is handed out in pieces. *)
Definition io_read (s : source) (cap : nat) : rres * source :=
  match chunks s with
  | [] => (([], Some (tail_err (stail s))), mkSrc [] (with_last s) (tail_next (stail s)))
  | c :: rest =>
      if length c <=? cap then
        match rest with
        | [] => if with_last s
                then ((c, Some (tail_err (stail s))), mkSrc [] true (tail_next (stail s)))
                else ((c, None), mkSrc [] false (stail s))
        | _ => ((c, None), mkSrc rest (with_last s) (stail s))
        end
      else ((firstn cap c, None), mkSrc (skipn cap c :: rest) (with_last s) (stail s))
  end.

(* Termination measure of a source, and the side condition of C09: never 100 consecutive empty
   chunks (bufio gives up with io.ErrNoProgress after 100 empty reads). *)
Fixpoint weight (cs : list bytes) : nat :=
  match cs with [] => 0 | c :: r => 2 * length c + 1 + weight r end.

Definition is_nil {A} (l : list A) : bool := match l with [] => true | _ => false end.

Fixpoint lead_empties (cs : list bytes) : nat :=
  match cs with
  | c :: r => if is_nil c then S (lead_empties r) else 0
  | [] => 0
  end.

Fixpoint runs_ok (cs : list bytes) : bool :=
  match cs with
  | [] => true
  | c :: r => (lead_empties cs <=? 99) && runs_ok r
  end.

(* Reading a source to the end with reads of a fixed size (io.ReadAll-like consumer). *)
Fixpoint drain (fuel : nat) (cap : nat) (s : source) : outcome (bytes * ioerr) :=
  match fuel with
  | O => OutOfFuel
  | S k =>
      let '((c, oe), s') := io_read s cap in
      match oe with
      | Some e => Ok (c, e)
      | None => match drain k cap s' with
                | Ok (d, e) => Ok (c ++ d, e)
                | x => x
                end
      end
  end.
