(* C09 / C16 model: chunked (and failing) input sources and the byte-level reader layers that
   omniparser stacks on them.  Executable definitions only; proofs in Proofs/Chunk*.v. *)
From Coq Require Import List NArith Bool Arith.
From Coq.Strings Require Import Byte.
Import ListNotations.
From OV Require Import Base.Bytes Base.Cases Base.Utf8.

(* ---- io.Reader results --------------------------------------------------------------------- *)
(* Error values a byte-level layer can hand to its consumer.  IoFault e: the (non-EOF) error
   value e returned by the input io.Reader, identified by a harness-assigned id. *)
Inductive ioerr := IoEOF | IoFault (e : N) | IoNoProgress | IoTooLong | IoBufferFull.

Definition ioerr_eqb (a b : ioerr) : bool :=
  match a, b with
  | IoEOF, IoEOF | IoNoProgress, IoNoProgress | IoTooLong, IoTooLong | IoBufferFull, IoBufferFull => true
  | IoFault x, IoFault y => N.eqb x y
  | _, _ => false
  end.

(* One Read(p) result: the bytes stored into p (n = length) and the error. *)
Definition rres := (bytes * option ioerr)%type.

Definition rres_eqb (a b : rres) : bool :=
  bytes_eqb (fst a) (fst b) && opt_eqb ioerr_eqb (snd a) (snd b).

(* Partial operations. *)
Inductive outcome (A : Type) := Ok (a : A) | Panic (site : N) | OutOfFuel.
Arguments Ok {A}. Arguments Panic {A}. Arguments OutOfFuel {A}.

(* ---- sources ---------------------------------------------------------------------------------- *)
(* What the source does once its data is exhausted: io.EOF forever; the same error forever
   (persistent fault); one error once and then another one forever. *)
Inductive tail := TEof | TFault (e : N) | TOnce (e1 e2 : N).

Definition tail_err (t : tail) : ioerr :=
  match t with TEof => IoEOF | TFault e => IoFault e | TOnce e1 _ => IoFault e1 end.
Definition tail_next (t : tail) : tail :=
  match t with TOnce _ e2 => TFault e2 | _ => t end.

(* A source: the chunks it will offer in order (a chunk may be empty: Read returns (0, nil)),
   whether the last chunk is returned together with the first error of the tail, and the tail. *)
Record source := mkSrc { chunks : list bytes; with_last : bool; stail : tail }.

(* Read(p) with len(p) = cap: a chunk longer than cap is handed out in pieces. *)
Definition io_read (s : source) (cap : nat) : rres * source :=
  match chunks s with
  | [] => (([], Some (tail_err (stail s))), mkSrc [] (with_last s) (tail_next (stail s)))
  | c :: rest =>
      if length c <=? cap then
        match rest with
        | [] => if with_last s
                then ((c, Some (tail_err (stail s))), mkSrc [] true (tail_next (stail s)))
                else ((c, None), mkSrc [] false (stail s))
        | _ => ((c, None), mkSrc rest (with_last s) (stail s))
        end
      else ((firstn cap c, None), mkSrc (skipn cap c :: rest) (with_last s) (stail s))
  end.

(* Termination measure of a source, and the side condition of C09: never 100 consecutive empty
   chunks (bufio gives up with io.ErrNoProgress after 100 empty reads). *)
Fixpoint weight (cs : list bytes) : nat :=
  match cs with [] => 0 | c :: r => 2 * length c + 1 + weight r end.

Definition is_nil {A} (l : list A) : bool := match l with [] => true | _ => false end.

Fixpoint lead_empties (cs : list bytes) : nat :=
  match cs with
  | c :: r => if is_nil c then S (lead_empties r) else 0
  | [] => 0
  end.

Fixpoint runs_ok (cs : list bytes) : bool :=
  match cs with
  | [] => true
  | c :: r => (lead_empties cs <=? 99) && runs_ok r
  end.

(* Reading a source to the end with reads of a fixed size (io.ReadAll-like consumer). *)
Fixpoint drain (fuel : nat) (cap : nat) (s : source) : outcome (bytes * ioerr) :=
  match fuel with
  | O => OutOfFuel
  | S k =>
      let '((c, oe), s') := io_read s cap in
      match oe with
      | Some e => Ok (c, e)
      | None => match drain k cap s' with
                | Ok (d, e) => Ok (c ++ d, e)
                | x => x
                end
      end
  end.

(* ---- small byte-string helpers ---------------------------------------------------------------- *)
Fixpoint index_byte (d : byte) (l : bytes) : option nat :=      (* bytes.IndexByte *)
  match l with
  | [] => None
  | c :: r => if Byte.eqb c d then Some 0 else option_map S (index_byte d r)
  end.

Fixpoint prefix_eqb (p l : bytes) : bool :=                      (* bytes.HasPrefix l p *)
  match p, l with
  | [], _ => true
  | a :: p', b :: l' => Byte.eqb a b && prefix_eqb p' l'
  | _ :: _, [] => false
  end.

Fixpoint index_sub (p l : bytes) : option nat :=                 (* bytes.Index l p *)
  if prefix_eqb p l then Some 0
  else match l with [] => None | _ :: r => option_map S (index_sub p r) end.

Definition is_none {A} (o : option A) : bool := match o with None => true | _ => false end.
Definition lastn {A} (n : nat) (l : list A) : list A := skipn (length l - n) l.
Definition dropn {A} (n : nat) (l : list A) : list A := firstn (length l - n) l.

Definition NL : byte := x0a.
Definition CR : byte := x0d.

(* utf8.FullRune *)
Definition full_rune (p : bytes) : bool :=
  match p with
  | [] => false
  | b0 :: r =>
      let x := b2n b0 in
      let need := if (x <? 194)%N then 1 else if (x <? 224)%N then 2 else if (x <? 240)%N then 3
                  else if (x <? 245)%N then 4 else 1 in
      if need <=? length p then true
      else
        let lo := if (x =? 224)%N then 160%N else if (x =? 240)%N then 144%N else 128%N in
        let hi := if (x =? 237)%N then 159%N else if (x =? 244)%N then 143%N else 191%N in
        match r with
        | b1 :: r2 =>
            if negb (in_range lo hi b1) then true
            else match r2 with
                 | b2 :: _ => negb (in_range 128 191 b2)
                 | [] => false
                 end
        | [] => false
        end
  end.

(* ---- bufio.Reader ------------------------------------------------------------------------------- *)
(* b_pre = buf[0:r] (already consumed, still in the buffer), b_data = buf[r:w], b_err = b.err,
   b_lastrune = lastRuneSize (None = -1). *)
Record bufrd := mkB { b_pre : bytes; b_data : bytes; b_err : option ioerr; b_lastrune : option nat }.
Definition b_init : bufrd := mkB [] [] None None.

(* What ReadLine makes of ReadSlice's (line, err): the (line, isPrefix, err) it returns and
   whether it puts a trailing '\r' back into the buffer. *)
Definition rl_post (line : bytes) (oe : option ioerr) : (bytes * bool * option ioerr) * bool :=
  match oe with
  | Some IoBufferFull =>
      if negb (is_nil line) && Byte.eqb (last line x00) CR
      then ((removelast line, true, None), true)
      else ((line, true, None), false)
  | _ =>
      match line with
      | [] => (([], false, oe), false)
      | _ =>
          if Byte.eqb (last line x00) NL then
            let l1 := removelast line in
            let l2 := if negb (is_nil l1) && Byte.eqb (last l1 x00) CR then removelast l1 else l1 in
            ((l2, false, None), false)
          else ((line, false, None), false)
      end
  end.

Section Bufio.
  Variable St : Type.
  Variable sread : St -> nat -> rres * St.     (* the wrapped io.Reader *)
  Variable N : nat.                           (* len(b.buf) *)

  (* the read loop of fill: at most 100 attempts *)
  Fixpoint fill_loop (i : nat) (data : bytes) (x : St) : rres * St :=
    match i with
    | O => ((data, Some IoNoProgress), x)
    | S i' =>
        let '((c, oe), x') := sread x (N - length data) in
        match oe with
        | Some e => ((data ++ c, Some e), x')
        | None => if is_nil c then fill_loop i' data x' else ((data ++ c, None), x')
        end
    end.

  Definition fill (b : bufrd) (x : St) : outcome (bufrd * St) :=
    if N <=? length (b_data b) then Panic 1     (* "bufio: tried to fill full buffer" *)
    else
      let '((d, oe), x') := fill_loop 100 (b_data b) x in
      Ok (mkB [] d (match oe with Some e => Some e | None => b_err b end) (b_lastrune b), x').

  (* ReadRune *)
  Definition need_more_rune (b : bufrd) : bool :=
    (length (b_data b) <? 4) && negb (full_rune (b_data b)) && is_none (b_err b)
    && (length (b_data b) <? N).

  Fixpoint read_rune_fill (fuel : nat) (b : bufrd) (x : St) : outcome (bufrd * St) :=
    match fuel with
    | O => if need_more_rune b then OutOfFuel else Ok (b, x)
    | S k =>
        if need_more_rune b then
          match fill b x with
          | Ok (b', x') => read_rune_fill k b' x'
          | Panic s => Panic s
          | OutOfFuel => OutOfFuel
          end
        else Ok (b, x)
    end.

  (* result: Some (rune, size) or the error of readErr() *)
  Definition read_rune (b : bufrd) (x : St)
    : outcome ((option (rune * nat) * option ioerr) * (bufrd * St)) :=
    match read_rune_fill 5 b x with
    | Ok (b, x) =>
        match b_data b with
        | [] => Ok ((None, b_err b), (mkB (b_pre b) [] None None, x))
        | _ => let '(r, size) := decode_rune (b_data b) in
               Ok ((Some (r, size), None),
                   (mkB (b_pre b ++ firstn size (b_data b)) (skipn size (b_data b)) (b_err b) (Some size), x))
        end
    | Panic s => Panic s
    | OutOfFuel => OutOfFuel
    end.

  (* UnreadRune; false = ErrInvalidUnreadRune *)
  Definition unread_rune (b : bufrd) : bool * bufrd :=
    match b_lastrune b with
    | None => (false, b)
    | Some sz =>
        if length (b_pre b) <? sz then (false, b)
        else (true, mkB (dropn sz (b_pre b)) (lastn sz (b_pre b) ++ b_data b) (b_err b) None)
    end.

  (* Read(p), len(p) = cap *)
  Definition b_read (bx : bufrd * St) (cap : nat) : rres * (bufrd * St) :=
    let '(b, x) := bx in
    if cap =? 0 then
      match b_data b with
      | [] => (([], b_err b), (mkB (b_pre b) [] None (b_lastrune b), x))
      | _ => (([], None), bx)
      end
    else
      match b_data b with
      | [] =>
          match b_err b with
          | Some e => (([], Some e), (mkB (b_pre b) [] None (b_lastrune b), x))
          | None =>
              if N <=? cap then
                (* large read, empty buffer: read directly into p *)
                let '((c, oe), x') := sread x cap in
                ((c, oe), (mkB (b_pre b) [] None (if is_nil c then b_lastrune b else None), x'))
              else
                let '((c, oe), x') := sread x N in
                if is_nil c then (([], oe), (mkB [] [] None (b_lastrune b), x'))
                else ((firstn cap c, None), (mkB (firstn cap c) (skipn cap c) oe None, x'))
          end
      | d => ((firstn cap d, None), (mkB (b_pre b ++ firstn cap d) (skipn cap d) (b_err b) None, x))
      end.

  (* ReadSlice('\n'); s = search start *)
  Fixpoint read_slice (fuel : nat) (s : nat) (b : bufrd) (x : St)
    : outcome ((bytes * option ioerr) * (bufrd * St)) :=
    match fuel with
    | O => OutOfFuel
    | S k =>
        let d := b_data b in
        match index_byte NL (skipn s d) with
        | Some i =>
            let n := s + i + 1 in
            Ok ((firstn n d, None), (mkB (b_pre b ++ firstn n d) (skipn n d) (b_err b) None, x))
        | None =>
            match b_err b with
            | Some e =>
                Ok ((d, Some e),
                    (mkB (b_pre b ++ d) [] None (if is_nil d then b_lastrune b else None), x))
            | None =>
                if N <=? length d then
                  Ok ((d, Some IoBufferFull), (mkB (b_pre b ++ d) [] None None, x))
                else
                  match fill b x with
                  | Ok (b', x') => read_slice k (length d) b' x'
                  | Panic p => Panic p
                  | OutOfFuel => OutOfFuel
                  end
            end
        end
    end.

  (* ReadLine: (line, isPrefix, err) *)
  Definition read_line (fuel : nat) (b : bufrd) (x : St)
    : outcome ((bytes * bool * option ioerr) * (bufrd * St)) :=
    match read_slice fuel 0 b x with
    | Ok ((line, oe), (b', x')) =>
        let '(res, rewind) := rl_post line oe in
        if rewind then
          (* put the '\r' back: b.r-- *)
          match b_pre b' with
          | [] => Panic 2      (* "bufio: tried to rewind past start of buffer" *)
          | _ => Ok (res, (mkB (removelast (b_pre b')) (lastn 1 (b_pre b') ++ b_data b') (b_err b') (b_lastrune b'), x'))
          end
        else Ok (res, (b', x'))
    | Panic p => Panic p
    | OutOfFuel => OutOfFuel
    end.

  (* go-corelib ios.ByteReadLine: inl err | inr line (an empty line is returned as nil).
     gas: fuel handed to every ReadLine; fuel: bound on the number of fragments. *)
  Fixpoint byte_read_line (gas fuel : nat) (acc : bytes) (b : bufrd) (x : St)
    : outcome ((ioerr + bytes) * (bufrd * St)) :=
    match fuel with
    | O => OutOfFuel
    | S k =>
        match read_line gas b x with
        | Ok ((l, more, Some e), st) => Ok (inl e, st)        (* return nil, err: acc is dropped *)
        | Ok ((l, more, None), (b', x')) =>
            if more then byte_read_line gas k (acc ++ l) b' x' else Ok (inr (acc ++ l), (b', x'))
        | Panic p => Panic p
        | OutOfFuel => OutOfFuel
        end
    end.

  (* the consumer of the fixed-length readers: ByteReadLine until the first error *)
  Fixpoint read_lines (gas fuel : nat) (b : bufrd) (x : St) : outcome (list bytes * ioerr) :=
    match fuel with
    | O => OutOfFuel
    | S k =>
        match byte_read_line gas (S k) [] b x with
        | Ok (inl e, _) => Ok ([], e)
        | Ok (inr l, (b', x')) =>
            match read_lines gas k b' x' with
            | Ok (ls, e) => Ok (l :: ls, e)
            | o => o
            end
        | Panic p => Panic p
        | OutOfFuel => OutOfFuel
        end
    end.

  (* go-corelib ios.StripBOM: inl err (NewTransform fails) | inr the bufio.Reader *)
  Definition BOM : rune := 65279%N.
  Definition strip_bom (x : St) : outcome ((ioerr + bufrd) * St) :=
    match read_rune b_init x with
    | Ok ((r, oe), (b, x')) =>
        match oe with
        | Some IoEOF => Ok (inr b_init, x')          (* br.Reset(reader) *)
        | Some e => Ok (inl e, x')
        | None =>
            match r with
            | Some (rn, _) => if (rn =? BOM)%N then Ok (inr b, x') else Ok (inr (snd (unread_rune b)), x')
            | None => Ok (inr (snd (unread_rune b)), x')
            end
        end
    | Panic p => Panic p
    | OutOfFuel => OutOfFuel
    end.
End Bufio.

(* ---- go-corelib ios.BytesReplacingReader ------------------------------------------------------- *)
(* r_buf = buf[0:buf1] (so buf1 = length r_buf), r_buf0 = buf0, r_err = err. *)
Record brr := mkBRR { r_buf : bytes; r_buf0 : nat; r_err : option ioerr }.
Definition brr_init : brr := mkBRR [] 0 None.

Section BRR.
  Variable St : Type.
  Variable sread : St -> nat -> rres * St.
  Variable search replace : bytes.
  Variable bufsize : nat.        (* len(r.buf) = max(4096, len(search), len(replace)) *)

  Definition brr_max : nat :=
    if length search <? length replace then (bufsize / length replace) * length search else bufsize.

  (* the inner "for" of Read: replace every occurrence in buf[buf0:buf1] *)
  Fixpoint brr_replace (fuel : nat) (buf : bytes) (buf0 : nat) : outcome (bytes * nat) :=
    match fuel with
    | O => OutOfFuel
    | S k =>
        match index_sub search (skipn buf0 buf) with
        | None => Ok (buf, Nat.max buf0 (length buf + 1 - length search))
        | Some i =>
            let index := buf0 + i in
            let buf' := firstn index buf ++ replace ++ skipn (index + length search) buf in
            if bufsize <? length buf' then Panic 3    (* slice bounds out of range *)
            else brr_replace k buf' (index + length replace)
        end
    end.

  Fixpoint brr_read (fuel : nat) (st : brr * St) (cap : nat) : outcome (rres * (brr * St)) :=
    match fuel with
    | O => OutOfFuel
    | S k =>
        let '(r, x) := st in
        if 0 <? r_buf0 r then
          let n := Nat.min cap (r_buf0 r) in
          let out := firstn n (r_buf r) in
          let rest := skipn n (r_buf r) in
          match rest, r_err r with
          | [], Some e => Ok ((out, Some e), (mkBRR [] (r_buf0 r - n) (r_err r), x))
          | _, _ => Ok ((out, None), (mkBRR rest (r_buf0 r - n) (r_err r), x))
          end
        else
          match r_err r with
          | Some e => Ok (([], Some e), st)
          | None =>
              let '((c, oe), x') := sread x (brr_max - length (r_buf r)) in
              match (if is_nil c then Ok (r_buf r, r_buf0 r)
                     else brr_replace (S (length (r_buf r ++ c))) (r_buf r ++ c) (r_buf0 r)) with
              | Ok (buf', buf0') =>
                  let buf0'' := if is_none oe then buf0' else length buf' in
                  brr_read k (mkBRR buf' buf0'' oe, x') cap
              | Panic p => Panic p
              | OutOfFuel => OutOfFuel
              end
          end
    end.
End BRR.

(* ---- bufio.Scanner with the go-corelib split function ----------------------------------------- *)
(* strs.ByteIndexWithEsc *)
Section IndexWithEsc.
  Variable delim esc : bytes.

  (* number of consecutive esc sequences ending exactly at the end of pre *)
  Fixpoint esc_run (fuel : nat) (pre : bytes) : nat :=
    match fuel with
    | O => 0
    | S k =>
        if (length esc <=? length pre) && bytes_eqb (lastn (length esc) pre) esc
        then S (esc_run k (dropn (length esc) pre)) else 0
    end.

  Fixpoint index_esc_loop (fuel : nat) (s : bytes) (begin : nat) : option nat :=
    match fuel with
    | O => None
    | S k =>
        match index_sub delim (skipn begin s) with
        | None => None
        | Some i =>
            let b := begin + i in
            if Nat.odd (esc_run (S b) (firstn b s)) then
              index_esc_loop k s (b + snd (decode_rune (skipn b s)))
            else Some b
        end
    end.

  Definition byte_index_with_esc (s : bytes) : option nat :=
    if is_nil s || is_nil delim || is_nil esc then index_sub delim s
    else index_esc_loop (S (length s)) s 0.
End IndexWithEsc.

(* s_start = s.start, s_data = buf[start:end], s_buflen = len(s.buf), s_err = s.err *)
Record scanner := mkScan { s_start : nat; s_data : bytes; s_buflen : nat; s_err : option ioerr }.
Definition MaxScanTokenSize : nat := 65536.

Section Scanner.
  Variable St : Type.
  Variable sread : St -> nat -> rres * St.
  Variable find : bytes -> option nat.     (* index of the first (unescaped) delimiter *)
  Variable dlen : nat.                     (* len(delim) *)
  Variable incl : bool.                    (* delimiter included in the token *)
  Variable eof_as_delim : bool.

  (* the split function of NewScannerByDelim3: (advance, token) *)
  Definition split (data : bytes) (at_eof : bool) : nat * option bytes :=
    if at_eof && is_nil data then (0, None)
    else match find data with
         | Some i => (i + dlen, Some (firstn (i + (if incl then dlen else 0)) data))
         | None => if at_eof && eof_as_delim then (length data, Some data) else (0, None)
         end.

  (* setErr *)
  Definition set_err (old : option ioerr) (e : ioerr) : option ioerr :=
    match old with
    | None | Some IoEOF => Some e
    | _ => old
    end.

  Fixpoint scan_read (i : nat) (sc : scanner) (x : St) : scanner * St :=
    match i with
    | O => (mkScan (s_start sc) (s_data sc) (s_buflen sc) (set_err (s_err sc) IoNoProgress), x)
    | S i' =>
        let '((c, oe), x') := sread x (s_buflen sc - (s_start sc + length (s_data sc))) in
        let sc' := mkScan (s_start sc) (s_data sc ++ c) (s_buflen sc) (s_err sc) in
        match oe with
        | Some e => (mkScan (s_start sc) (s_data sc ++ c) (s_buflen sc) (set_err (s_err sc) e), x')
        | None => if is_nil c then scan_read i' sc' x' else (sc', x')
        end
    end.

  (* the first part of one iteration of Scan's loop: "see if we can get a token with what we
     already have" -- inl = advance out of range (setErr(ErrAdvanceTooFar); cannot happen with
     this split function), inr (scanner after s.advance, token) *)
  Definition scan_try (sc : scanner) : unit + (scanner * option bytes) :=
    if (0 <? length (s_data sc)) || negb (is_none (s_err sc)) then
      let '(adv, tok) := split (s_data sc) (negb (is_none (s_err sc))) in
      if length (s_data sc) <? adv then inl tt
      else inr (mkScan (s_start sc + adv) (skipn adv (s_data sc)) (s_buflen sc) (s_err sc), tok)
    else inr (sc, None).

  (* "must read more data": shift the data to the start of the buffer if that helps, double the
     buffer if it is full -- inl = scanner with room to read into; inr = ErrTooLong *)
  Definition scan_grow (sc1 : scanner) : scanner + scanner :=
    let en := s_start sc1 + length (s_data sc1) in
    let sc2 := if (0 <? s_start sc1) && ((en =? s_buflen sc1) || (s_buflen sc1 / 2 <? s_start sc1))
               then mkScan 0 (s_data sc1) (s_buflen sc1) None else sc1 in
    let en2 := s_start sc2 + length (s_data sc2) in
    if en2 =? s_buflen sc2 then
      if MaxScanTokenSize <=? s_buflen sc2 then
        inr (mkScan (s_start sc2) (s_data sc2) (s_buflen sc2) (Some IoTooLong))
      else
        let ns := if s_buflen sc2 =? 0 then 4096 else Nat.min (s_buflen sc2 * 2) MaxScanTokenSize in
        inl (mkScan 0 (s_data sc2) ns None)
    else inl sc2.

  (* Scan(): Some token = true; None = false *)
  Fixpoint scan (fuel : nat) (sc : scanner) (x : St) : outcome (option bytes * (scanner * St)) :=
    match fuel with
    | O => OutOfFuel
    | S k =>
        match scan_try sc with
        | inl _ => Panic 4
        | inr (sc1, Some t) => Ok (Some t, (sc1, x))
        | inr (sc1, None) =>
            match s_err sc1 with
            | Some _ => Ok (None, (mkScan 0 [] (s_buflen sc1) (s_err sc1), x))
            | None =>
                match scan_grow sc1 with
                | inr sct => Ok (None, (sct, x))
                | inl sc2 => let '(sc3, x') := scan_read 101 sc2 x in scan k sc3 x'
                end
            end
        end
    end.

  (* scanner.Err() *)
  Definition scan_err (sc : scanner) : option ioerr :=
    match s_err sc with Some IoEOF => None | e => e end.

  (* all tokens until Scan returns false, then Err().  gas: fuel handed to every Scan; fuel:
     bound on the number of tokens. *)
  Fixpoint scan_all (gas fuel : nat) (sc : scanner) (x : St) : outcome (list bytes * option ioerr) :=
    match fuel with
    | O => OutOfFuel
    | S k =>
        match scan gas sc x with
        | Ok (Some t, (sc', x')) =>
            match scan_all gas k sc' x' with
            | Ok (ts, e) => Ok (t :: ts, e)
            | o => o
            end
        | Ok (None, (sc', _)) => Ok ([], scan_err sc')
        | Panic p => Panic p
        | OutOfFuel => OutOfFuel
        end
    end.
End Scanner.

(* ---- x/text transform.Reader over a charmap decoder ---------------------------------------------- *)
Record decrd := mkDec { d_dst : bytes; d_src : bytes; d_err : option ioerr; d_complete : bool }.
Definition dec_init : decrd := mkDec [] [] None false.

Section Decoder.
  Variable St : Type.
  Variable sread : St -> nat -> rres * St.
  Variable cp : byte -> bytes.      (* the code page: UTF-8 encoding of the rune a byte decodes to *)
  Variable D : nat.                 (* len(r.dst) = len(r.src) = 4096 *)

  (* charmapDecoder.Transform: (dst written, rest of src, ErrShortDst?) *)
  Fixpoint cm_transform (dst : bytes) (src : bytes) : bytes * bytes * bool :=
    match src with
    | [] => (dst, [], false)
    | c :: r => if D <? length dst + length (cp c) then (dst, src, true)
                else cm_transform (dst ++ cp c) r
    end.

  Fixpoint dec_read (fuel : nat) (st : decrd * St) (cap : nat) : outcome (rres * (decrd * St)) :=
    match fuel with
    | O => OutOfFuel
    | S k =>
        let '(d, x) := st in
        match d_dst d with
        | _ :: _ =>
            let out := firstn cap (d_dst d) in
            let rest := skipn cap (d_dst d) in
            if is_nil rest && d_complete d then Ok ((out, d_err d), (mkDec [] (d_src d) (d_err d) true, x))
            else Ok ((out, None), (mkDec rest (d_src d) (d_err d) (d_complete d), x))
        | [] =>
            if d_complete d then Ok (([], d_err d), st)
            else if negb (is_nil (d_src d)) || negb (is_none (d_err d)) then
              let '(dst, src', short) := cm_transform [] (d_src d) in
              if short then
                if negb (is_nil dst) || negb (Nat.eqb (length src') (length (d_src d))) then
                  dec_read k (mkDec dst src' (d_err d) false, x) cap
                else dec_read k (mkDec dst src' (match d_err d with None | Some IoEOF => Some IoTooLong | e => e end) true, x) cap
              else dec_read k (mkDec dst src' (d_err d) (negb (is_none (d_err d))), x) cap
            else
              let '((c, oe), x') := sread x (D - length (d_src d)) in
              dec_read k (mkDec [] (d_src d ++ c) oe false, x') cap
        end
    end.
End Decoder.

(* ---- correspondence cases (written by harness/cmd/c09 and cmd/c16) ---------------------------- *)
Definition src_fuel (s : source) : nat := 4 * weight (chunks s) + 64.

(* a sequence of Read(p) calls with the given len(p) *)
Fixpoint reads {St} (rd : St -> nat -> outcome (rres * St)) (st : St) (caps : list nat)
  : outcome (list rres) :=
  match caps with
  | [] => Ok []
  | c :: r =>
      match rd st c with
      | Ok (o, st') => match reads rd st' r with Ok os => Ok (o :: os) | x => x end
      | Panic p => Panic p
      | OutOfFuel => OutOfFuel
      end
  end.

Definition ok_read {St} (rd : St -> nat -> rres * St) : St -> nat -> outcome (rres * St) :=
  fun st c => Ok (rd st c).

Definition outcome_is {A} (eqb : A -> A -> bool) (o : outcome A) (a : A) : bool :=
  match o with Ok x => eqb x a | _ => false end.

Definition sum_eqb {A B} (ea : A -> A -> bool) (eb : B -> B -> bool) (x y : A + B) : bool :=
  match x, y with inl a, inl b => ea a b | inr a, inr b => eb a b | _, _ => false end.

Definition lines_res_eqb (a b : list bytes * ioerr) : bool :=
  list_eqb bytes_eqb (fst a) (fst b) && ioerr_eqb (snd a) (snd b).
Definition toks_res_eqb (a b : list bytes * option ioerr) : bool :=
  list_eqb bytes_eqb (fst a) (fst b) && opt_eqb ioerr_eqb (snd a) (snd b).

(* the layers as omniparser stacks them, over a source *)
Definition bufio_src (N : nat) := b_read source io_read N.
Definition brr_over {St} (rd : St -> nat -> rres * St) (search replace : bytes) (fuel : nat)
  : brr * St -> nat -> outcome (rres * (brr * St)) :=
  brr_read St rd search replace 4096 fuel.

(* a reader that must not fail inside (Panic / OutOfFuel) to be wrapped as a plain reader: the
   failure is turned into an impossible error value so that the comparison fails *)
Definition total {St} (rd : St -> nat -> outcome (rres * St)) : St -> nat -> rres * St :=
  fun st c => match rd st c with Ok r => r | _ => (([], Some IoBufferFull), st) end.

Definition table_cp (table : list bytes) (c : byte) : bytes := nth (N.to_nat (b2n c)) table [].

Inductive ccase :=
| CBufRead (N : nat) (src : source) (caps : list nat) (obs : list rres)
| CStripBOM (src : source) (caps : list nat) (probe : option ioerr) (obs : list rres)
| CLines (N : nat) (src : source) (lines : list bytes) (e : ioerr)
| CBRR (search replace : bytes) (src : source) (caps : list nat) (obs : list rres)
| CScan (delim esc : bytes) (incl eofd : bool) (buflen : nat) (src : source)
        (toks : list bytes) (e : option ioerr)
| CDecode (table : list bytes) (src : source) (caps : list nat) (obs : list rres)
| CStackLines (src : source) (probe : option ioerr) (lines : list bytes) (e : ioerr)
| CStackEDI (delim esc : bytes) (src : source) (probe : option ioerr)
            (toks : list bytes) (e : option ioerr).

Definition check_case (c : ccase) : bool :=
  match c with
  | CBufRead N src caps obs =>
      outcome_is (list_eqb rres_eqb) (reads (ok_read (bufio_src N)) (b_init, src) caps) obs
  | CStripBOM src caps probe obs =>
      match strip_bom source io_read 4096 src with
      | Ok (inl e, _) => opt_eqb ioerr_eqb probe (Some e) && is_nil obs
      | Ok (inr b, src') =>
          is_none probe
          && outcome_is (list_eqb rres_eqb) (reads (ok_read (bufio_src 4096)) (b, src') caps) obs
      | _ => false
      end
  | CLines N src lines e =>
      outcome_is lines_res_eqb (read_lines source io_read N (src_fuel src) (src_fuel src) b_init src) (lines, e)
  | CBRR search replace src caps obs =>
      outcome_is (list_eqb rres_eqb)
        (reads (brr_over io_read search replace (src_fuel src)) (brr_init, src) caps) obs
  | CScan delim esc incl eofd buflen src toks e =>
      outcome_is toks_res_eqb
        (scan_all source io_read (byte_index_with_esc delim esc) (length delim) incl eofd
                  (src_fuel src) (src_fuel src) (mkScan 0 [] buflen None) src) (toks, e)
  | CDecode table src caps obs =>
      outcome_is (list_eqb rres_eqb)
        (reads (dec_read source io_read (table_cp table) 4096 (src_fuel src)) (dec_init, src) caps) obs
  | CStackLines src probe lines e =>
      match strip_bom source io_read 4096 src with
      | Ok (inl e1, _) => opt_eqb ioerr_eqb probe (Some e1) && is_nil lines
      | Ok (inr b, src') =>
          is_none probe
          && outcome_is lines_res_eqb (read_lines source io_read 4096 (src_fuel src) (src_fuel src) b src') (lines, e)
      | _ => false
      end
  | CStackEDI delim esc src probe toks e =>
      match strip_bom source io_read 4096 src with
      | Ok (inl e1, _) => opt_eqb ioerr_eqb probe (Some e1) && is_nil toks
      | Ok (inr b, src') =>
          let F := src_fuel src in
          let r0 := bufio_src 4096 in
          let r1 := total (brr_over r0 [CR] [] F) in
          let r2 := total (brr_over r1 [NL] [] F) in
          is_none probe
          && outcome_is toks_res_eqb
               (scan_all _ r2 (byte_index_with_esc delim esc) (length delim) true false
                         F F (mkScan 0 [] 128 None) (brr_init, (brr_init, (b, src')))) (toks, e)
      | _ => false
      end
  end.

(* ---- pure stream functions: what the buffered layers compute, as functions of the bytes ------- *)
(* An abstract stream: all the bytes still to come, and what follows them.  The functions below
   are the F_K of the chunk-invariance theorems: the concrete layers over ANY chunking of the
   same bytes compute exactly these (Proofs/Chunk*.v). *)
Definition astream := (bytes * tail)%type.

(* Outside the guard no_tail_hazard (known finding F22): a final unterminated piece that fills
   the buffer exactly at the end of the data.  There bufio.ReadSlice answers ErrBufferFull or
   (data, err) depending on whether the error arrived together with the last bytes. *)
Definition HAZARD : N := 22.

Definition a_read_slice (N : nat) (a : astream) : outcome ((bytes * option ioerr) * astream) :=
  let '(data, t) := a in
  match index_byte NL (firstn N data) with
  | Some i => Ok ((firstn (S i) data, None), (skipn (S i) data, t))
  | None =>
      if length data =? N then Panic HAZARD
      else if N <? length data then Ok ((firstn N data, Some IoBufferFull), (skipn N data, t))
      else Ok ((data, Some (tail_err t)), ([], tail_next t))
  end.

Definition a_read_line (N : nat) (a : astream) : outcome ((bytes * bool * option ioerr) * astream) :=
  match a_read_slice N a with
  | Ok ((line, oe), (data', t')) =>
      let '(res, rewind) := rl_post line oe in
      Ok (res, (if rewind then CR :: data' else data', t'))
  | Panic p => Panic p
  | OutOfFuel => OutOfFuel
  end.

Fixpoint a_byte_read_line (N fuel : nat) (acc : bytes) (a : astream)
  : outcome ((ioerr + bytes) * astream) :=
  match fuel with
  | O => OutOfFuel
  | S k =>
      match a_read_line N a with
      | Ok ((l, more, Some e), a') => Ok (inl e, a')
      | Ok ((l, more, None), a') =>
          if more then a_byte_read_line N k (acc ++ l) a' else Ok (inr (acc ++ l), a')
      | Panic p => Panic p
      | OutOfFuel => OutOfFuel
      end
  end.

Fixpoint a_read_lines (N fuel : nat) (a : astream) : outcome (list bytes * ioerr) :=
  match fuel with
  | O => OutOfFuel
  | S k =>
      match a_byte_read_line N (S k) [] a with
      | Ok (inl e, _) => Ok ([], e)
      | Ok (inr l, a') =>
          match a_read_lines N k a' with
          | Ok (ls, e) => Ok (l :: ls, e)
          | o => o
          end
      | Panic p => Panic p
      | OutOfFuel => OutOfFuel
      end
  end.

(* ios.StripBOM on a stream: inl err | inr the stream the returned reader delivers *)
Definition a_strip_bom (a : astream) : (ioerr + astream) :=
  let '(data, t) := a in
  match data with
  | [] => match tail_err t with
          | IoEOF => inr ([], tail_next t)
          | e => inl e
          end
  | _ => let '(r, size) := decode_rune data in
         if (r =? 65279)%N then inr (skipn size data, t) else inr (data, t)
  end.

(* bufio.Scanner with the split function of NewScannerByDelim3: the tokens of a stream.  A token
   needs its delimiter within the first MaxScanTokenSize bytes of what is left (else
   bufio.ErrTooLong).  HAZARD: exactly MaxScanTokenSize bytes without delimiter are left -- the
   scanner answers ErrTooLong or treats them as the end of the input depending on whether the
   error arrived together with the last bytes (known finding F23; reachable through omniparser's
   EDI stack because bufio.Reader.Read and BytesReplacingReader pass data and error on together
   for large reads). *)
Section AScan.
  Variable find : bytes -> option nat.
  Variable dlen : nat.
  Variable incl eof_as_delim : bool.

  Definition scan_terr (t : tail) : option ioerr :=
    match tail_err t with IoEOF => None | e => Some e end.

  Fixpoint a_scan_all (fuel : nat) (data : bytes) (t : tail) : outcome (list bytes * option ioerr) :=
    match fuel with
    | O => OutOfFuel
    | S k =>
        match find (firstn MaxScanTokenSize data) with
        | Some i =>
            match a_scan_all k (skipn (i + dlen) data) t with
            | Ok (ts, e) => Ok (firstn (i + (if incl then dlen else 0)) data :: ts, e)
            | o => o
            end
        | None =>
            if length data =? MaxScanTokenSize then Panic HAZARD
            else if MaxScanTokenSize <? length data then Ok ([], Some IoTooLong)
            else if is_nil data || negb eof_as_delim then Ok ([], scan_terr t)
            else match a_scan_all k [] t with
                 | Ok (ts, e) => Ok (data :: ts, e)
                 | o => o
                 end
        end
    end.
End AScan.

(* BytesReplacingReader with a one-byte search token *)
Definition a_replace1 (s : byte) (repl : bytes) (data : bytes) : bytes :=
  flat_map (fun c => if Byte.eqb c s then repl else [c]) data.

(* BytesReplacingReader in general: every leftmost, non-overlapping occurrence of search replaced,
   the replacement itself not rescanned (bytes.Replace).  skip = bytes of a match still to drop. *)
Fixpoint a_replace (search repl : bytes) (skip : nat) (l : bytes) : bytes :=
  match l with
  | [] => []
  | c :: r =>
      match skip with
      | S k => a_replace search repl k r
      | O => if prefix_eqb search l then repl ++ a_replace search repl (length search - 1) r
             else c :: a_replace search repl 0 r
      end
  end.

(* the charmap decoder *)
Definition a_decode (cp : byte -> bytes) (data : bytes) : bytes := flat_map cp data.

(* Reading any (total) reader to the end with reads of a fixed size. *)
Section DrainAny.
  Variable St : Type.
  Variable sread : St -> nat -> rres * St.
  Fixpoint drain_rd (fuel cap : nat) (x : St) : outcome (bytes * ioerr) :=
    match fuel with
    | O => OutOfFuel
    | S k =>
        let '((c, oe), x') := sread x cap in
        match oe with
        | Some e => Ok (c, e)
        | None => match drain_rd k cap x' with
                  | Ok (d, e) => Ok (c ++ d, e)
                  | o => o
                  end
        end
    end.
End DrainAny.

(* ---- flatfile/fixedlength/reader.go: the unprocessed-lines buffer and its aliasing discipline -- *)
(* A line in reader.linesBuf either owns a copy of its bytes or refers into bufio.Reader's
   internal buffer as it was after the ByteReadLine call number ll_gen.  Every further call on the
   bufio.Reader may move the buffer (documented contract of ReadLine/ReadSlice: "the bytes stop
   being valid at the next read"), i.e. bumps the generation; reading a stale reference is
   Poison.  Any number of lines may be buffered (multi-line envelopes: rows: n, header/footer). *)
Record lbline := mkLL { ll_copied : bool; ll_gen : nat }.
Record lbstate := mkLB { lb_lines : list lbline; lb_gen : nat }.
Definition lb_init : lbstate := mkLB [] 0.

Inductive lbop :=
| LRead (empties : nat) (got : bool)
    (* readLine(): `empties` empty lines are skipped first; got = a non-empty line was appended
       (false: io.EOF or a read error ended the call) *)
| LReadNoCopy (empties : nat) (got : bool)
    (* the same without the copy of the last unprocessed line (NOT what the code does: used by
       the refutation below) *)
| LPop (n : nat)      (* popFrontLinesBuf(n) *)
| LUse (n : nat).     (* linesToNode / matchHeader / matchFooter / lineMatch read linesBuf[0..n) *)

Inductive lbres := LOk (st : lbstate) | LPoison | LPanic.

(* reader.go:151-160: turn the last element into a copy unless it already is one *)
Definition lb_copy_last (ls : list lbline) : list lbline :=
  match ls with
  | [] => []
  | _ => removelast ls ++ [mkLL true (ll_gen (last ls (mkLL true 0)))]
  end.

Definition lb_valid (g : nat) (l : lbline) : bool := ll_copied l || (ll_gen l =? g).

Definition lb_step (st : lbstate) (o : lbop) : lbres :=
  match o with
  | LRead empties got =>
      let ls := lb_copy_last (lb_lines st) in
      let g := lb_gen st + empties + 1 in
      LOk (mkLB (if got then ls ++ [mkLL false g] else ls) g)
  | LReadNoCopy empties got =>
      let g := lb_gen st + empties + 1 in
      LOk (mkLB (if got then lb_lines st ++ [mkLL false g] else lb_lines st) g)
  | LPop n =>
      if length (lb_lines st) <? n then LPanic else LOk (mkLB (skipn n (lb_lines st)) (lb_gen st))
  | LUse n =>
      if length (lb_lines st) <? n then LPanic
      else if forallb (lb_valid (lb_gen st)) (firstn n (lb_lines st)) then LOk st else LPoison
  end.

Fixpoint lb_run (st : lbstate) (ops : list lbop) : lbres :=
  match ops with
  | [] => LOk st
  | o :: r => match lb_step st o with LOk st' => lb_run st' r | x => x end
  end.

Definition lb_code_op (o : lbop) : bool := match o with LReadNoCopy _ _ => false | _ => true end.

(* ---- go-corelib ios.LineCountingReader (idr/jsonreader.go: the "before/near line N" of JSON errors) *)
(* It counts the '\n' of every chunk its consumer has READ -- the json decoder reads ahead, so the
   count at the time a token is handed out depends on the chunking (known finding F30). *)
Definition count_nl (b : bytes) : nat := length (filter (Byte.eqb NL) b).
Definition lcr_read (st : nat * source) (cap : nat) : rres * (nat * source) :=
  let '((c, oe), s') := io_read (snd st) cap in ((c, oe), (fst st + count_nl c, s')).
