(* C12: the pointer program extracted from idr.AddChild (Gen/NodeOps.v), interpreted on the model
   heap: a selector is a load through a possibly nil pointer, an assignment a store, a nil
   dereference a panic.  Proofs/HeapOpsGen.v: on every heap and for every pair of arguments this
   does what the hand transcription Model.Heap.add_child does. *)
From Coq Require Import List NArith ZArith.
From stdpp Require Import pmap.
From OV Require Import Base.Bytes Base.Cases Base.Tree Gen.NodeOps Model.Heap.
Import ListNotations.

Definition getf (f : pfield) (x : node) : option addr :=
  match f with
  | PParent => n_parent x | PFirstChild => n_first x | PLastChild => n_last x
  | PPrevSibling => n_prev x | PNextSibling => n_next x
  end.
Definition setf (f : pfield) (v : option addr) (x : node) : node :=
  match f with
  | PParent => set_parent v x | PFirstChild => set_first v x | PLastChild => set_last v x
  | PPrevSibling => set_prev v x | PNextSibling => set_next v x
  end.

Fixpoint eval (env : list addr) (h : heapT) (e : pexpr) : outcome (option addr) :=
  match e with
  | PVar i => match nth_error env i with Some a => Ok (Some a) | None => Panic 0 end
  | PNil => Ok None
  | PSel e' f => p <- eval env h e' ;; x <- loadp 0 h p ;; Ok (getf f x)
  end.

Fixpoint exec_stmt (env : list addr) (h : heapT) (s : pstmt) {struct s} : outcome heapT :=
  match s with
  | SAssign x f e =>
      p <- eval env h x ;; v <- eval env h e ;; updp 0 h p (setf f v)
  | SIf a b th el =>
      x <- eval env h a ;; y <- eval env h b ;;
      let go := fix go (h : heapT) (l : list pstmt) {struct l} : outcome heapT :=
                  match l with
                  | [] => Ok h
                  | s' :: r => h' <- exec_stmt env h s' ;; go h' r
                  end in
      if oaddr_eqb x y then go h th else go h el
  end.

Fixpoint exec_prog (env : list addr) (h : heapT) (l : list pstmt) : outcome heapT :=
  match l with
  | [] => Ok h
  | s :: r => h' <- exec_stmt env h s ;; exec_prog env h' r
  end.

(* outcomes up to the number of the panicking statement *)
Definition oeq {A} (x y : outcome A) : Prop :=
  match x, y with
  | Ok a, Ok b => a = b
  | Panic _, Panic _ => True
  | OutOfFuel, OutOfFuel => True
  | BadChoice, BadChoice => True
  | _, _ => False
  end.

(* One API call with the link surgery done by the extracted programs rather than by the hand
   transcriptions (node creation and recycle are Model.Heap's). *)
Definition step_src (caching : bool) (s : st) (o : op) : outcome (st * option addr) :=
  match o with
  | OCreate c ty data fs => step caching s o
  | OAdd p n => h <- exec_prog [p; n] (heap s) add_child_prog ;; Ok (with_heap s h, None)
  | ORemove n =>
      h <- exec_prog [n] (heap s) remove_unlink_prog ;;
      s1 <- (if caching then recycle (fuel_of s) (with_heap s h) n else Ok (with_heap s h)) ;;
      Ok (s1, None)
  end.

Fixpoint run_src (caching : bool) (s : st) (ops : list op) : outcome st :=
  match ops with
  | [] => Ok s
  | o :: r => '(s1, _) <- step_src caching s o ;; run_src caching s1 r
  end.

(* The case check the harness evaluates: histories are replayed with step_src, so that what is
   compared with the implementation's observed field changes is the run of the EXTRACTED link
   programs.  Proofs/HeapOpsGen.v: check_case_src = check_case. *)
Definition check_case_src : c12case -> bool := check_case_with step_src.
