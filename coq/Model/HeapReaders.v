(* C12 bridge, executable part: what the streaming readers of Model/Stream.v (idr/xmlreader.go,
   idr/jsonreader.go) do to the node heap of Model/Heap.v.

   The reader models of C04/C17 work on abstract Base.Tree trees held as a right-spine zipper.
   Here the same zipper is kept with ADDRESSES, every structural action of the Go code is issued
   as the idr API call it is (CreateXMLNode / CreateJSONNode, AddChild, RemoveAndReleaseTree;
   cur = cur.Parent and cur.FormatSpecific = ... touch no link), and the calls are executed on the
   pointer-level state.  Every call goes through [do_op], which refuses to continue (None) if
   the call's API precondition [pre_b] is false in the state it is issued in or if the call
   does not return normally; Proofs/HeapReaders.v shows that this never happens and that the
   addressed zipper carries exactly the abstract trees of the reader model.

   The decisions the Go code takes (is the closed node the stream candidate, does the filter
   accept it) are functions of the abstract tree; they are taken from the abstract state. *)
From Coq Require Import List NArith ZArith Bool.
From stdpp Require Import pmap.
From OV Require Import Base.Bytes Base.Cases Base.Tree Model.Stream Model.Heap.
Import ListNotations.

Definition N_of_ntype (t : ntype) : N :=
  match t with DocumentNode => 0%N | ElementNode => 1%N | TextNode => 2%N | AttributeNode => 3%N end.

(* ---- executing API calls ------------------------------------------------------------------------ *)
(* the pointer-level state, the abstract forest it represents, the IDs handed out so far and the
   calls issued so far (most recent last) *)
Record mach := mkM { m_s : st; m_F : forest; m_acq : list Z; m_log : list op }.

Definition acq_of (s' : st) (ret : option addr) (acq : list Z) : list Z :=
  match ret with Some a => id_of (heap s') a :: acq | None => acq end.

Definition do_op (caching : bool) (m : mach) (o : op) : option (mach * option addr) :=
  if pre_b caching (m_s m) (m_F m) o then
    match step caching (m_s m) o with
    | Ok (s', ret) =>
        Some (mkM s' (aeffect (m_s m) (m_F m) o) (acq_of s' ret (m_acq m)) (m_log m ++ [o]), ret)
    | _ => None
    end
  else None.

(* cur.FormatSpecific = fs: a plain field write, no API call *)
Definition do_set_fs (m : mach) (a : addr) (fs : fspec) : option mach :=
  match heap (m_s m) !! a with
  | Some x => Some (mkM (with_heap (m_s m) (<[a := Heap.set_fs fs x]> (heap (m_s m)))) (m_F m) (m_acq m) (m_log m))
  | None => None
  end.

(* ---- the addressed zipper ----------------------------------------------------------------------- *)
(* an open node: its address and the closed children it has so far *)
Definition aframe := (addr * list atree)%type.

Fixpoint azip (stack : list aframe) (below : option atree) : option atree :=
  match stack with
  | [] => below
  | (a, ks) :: r => azip r (Some (AT a (ks ++ match below with Some t => [t] | None => [] end)))
  end.

(* [r_stack]: cur first, the root last; [] = sp.cur == nil.  [r_done]: the closed root while it is
   still alive.  [r_env]: the other live trees of the process (untouched by the reader). *)
Record rd := mkRd { r_m : mach; r_env : forest; r_stack : list aframe; r_done : option atree }.

Definition r_tree (r : rd) : option atree :=
  match r_stack r with [] => r_done r | _ => azip (r_stack r) None end.
Definition otl {A} (o : option A) : list A := match o with Some x => [x] | None => [] end.
Definition r_forest (r : rd) : forest := r_env r ++ otl (r_tree r).

(* child := Create...Node(ty, data, fs); AddChild(sp.cur, child); [sp.cur = child] *)
Definition new_child (caching : bool) (choose : st -> choice) (r : rd)
           (ty : ntype) (data : bytes) (fs : fspec) (descend : bool) : option rd :=
  match r_stack r with
  | [] => None
  | (cur, ks) :: up =>
      match do_op caching (r_m r) (OCreate (choose (m_s (r_m r))) (N_of_ntype ty) data fs) with
      | Some (m1, Some n) =>
          match do_op caching m1 (OAdd cur n) with
          | Some (m2, _) =>
              Some (mkRd m2 (r_env r)
                         (if descend then (n, []) :: (cur, ks) :: up else (cur, ks ++ [AT n []]) :: up)
                         None)
          | None => None
          end
      | _ => None
      end
  end.

(* sp.cur = sp.cur.Parent *)
Definition go_up (r : rd) : option rd :=
  match r_stack r with
  | [] => None
  | [(a, ks)] => Some (mkRd (r_m r) (r_env r) [] (Some (AT a ks)))
  | (a, ks) :: (p, pks) :: up => Some (mkRd (r_m r) (r_env r) ((p, pks ++ [AT a ks]) :: up) None)
  end.

(* RemoveAndReleaseTree(sp.stream); sp.stream = nil - for the node that was closed last *)
Definition remove_last (caching : bool) (r : rd) : option rd :=
  match r_stack r with
  | [] =>
      match r_done r with
      | Some t =>
          match do_op caching (r_m r) (ORemove (root t)) with
          | Some (m1, _) => Some (mkRd m1 (r_env r) [] None)
          | None => None
          end
      | None => None
      end
  | (p, pks) :: up =>
      match rev pks with
      | t :: rest =>
          match do_op caching (r_m r) (ORemove (root t)) with
          | Some (m1, _) => Some (mkRd m1 (r_env r) ((p, rev rest) :: up) None)
          | None => None
          end
      | [] => None
      end
  end.

(* sp.cur.FormatSpecific = fs *)
Definition set_cur_fs (r : rd) (fs : fspec) : option rd :=
  match r_stack r with
  | [] => None
  | (cur, ks) :: up =>
      match do_set_fs (r_m r) cur fs with
      | Some m1 => Some (mkRd m1 (r_env r) (r_stack r) (r_done r))
      | None => None
      end
  end.

Definition obnd {A B} (x : option A) (f : A -> option B) : option B :=
  match x with Some a => f a | None => None end.

(* ---- NewXMLStreamReader / NewJSONStreamReader: root: CreateXMLNode(DocumentNode, "", ...) --------- *)
Definition tree_init (caching : bool) (choose : st -> choice) (m : mach)
           (ty : ntype) (data : bytes) (fs : fspec) : option rd :=
  match do_op caching m (OCreate (choose (m_s m)) (N_of_ntype ty) data fs) with
  | Some (m1, Some n) => Some (mkRd m1 (m_F m) [(n, [])] None)
  | _ => None
  end.
Definition reader_init (caching : bool) (choose : st -> choice) (m : mach) (fs : fspec) : option rd :=
  tree_init caching choose m DocumentNode [] fs.

(* the node that was closed last: the last child of cur, or the closed root *)
Definition last_closed (r : rd) : option atree :=
  match r_stack r with
  | [] => r_done r
  | (_, ks) :: _ => match rev ks with k :: _ => Some k | [] => None end
  end.

(* ---- the closing decision of wrapUpCurAndTargetCheck, as Stream.wrap_up takes it ------------------- *)
Section Decide.
  Variable pm : list name -> bool.
  Variable pred : tree -> bool.
  Variable has_filter old_check : bool.

  (* the state after sp.cur = sp.cur.Parent *)
  Definition abs_up (st : Stream.state) : Stream.state :=
    match s_stack st with
    | [] => st
    | f :: rest =>
        match rest with
        | [] => mkS [] (Some (close_frame f)) (s_stream st)
        | p :: up => mkS (add_kid p (close_frame f) :: up) None (s_stream st)
        end
    end.

  Definition closing_is_stream (st : Stream.state) : bool :=
    match s_stream st with
    | SOpen k => Nat.eqb k (List.length (s_stack st))
    | _ => false
    end.

  Definition closing_ok (st : Stream.state) : bool :=
    negb has_filter ||
    match root_tree (abs_up st) with
    | Some root => if old_check then match_any pm pred root
                   else match_node pm pred root (next_child_pos (tl (s_stack st)))
    | None => false
    end.

  (* true: the closed node is the candidate and the filter rejects it -> it is removed at once *)
  Definition closing_rejected (st : Stream.state) : bool :=
    closing_is_stream st && negb (closing_ok st).

  (* wrapUpCurAndTargetCheck on the heap *)
  Definition h_wrap_up (caching : bool) (st : Stream.state) (r : rd) : option rd :=
    obnd (go_up r) (fun r1 => if closing_rejected st then remove_last caching r1 else Some r1).

  (* ---- idr/xmlreader.go parse(), one token ---------------------------------------------------------- *)
  Fixpoint h_attrs (caching : bool) (choose : st -> choice) (r : rd) (attrs : list (bytes * fspec * bytes))
    : option rd :=
    match attrs with
    | [] => Some r
    | (n, f, v) :: rest =>
        obnd (new_child caching choose r AttributeNode n f true) (fun r1 =>
        obnd (new_child caching choose r1 TextNode v (FXml [] []) false) (fun r2 =>
        obnd (go_up r2) (fun r3 => h_attrs caching choose r3 rest)))
    end.

  Definition hx_token (caching : bool) (choose : st -> choice) (st : Stream.state) (r : rd) (tk : xtoken)
    : option rd :=
    match tk with
    | XStart nm fs attrs =>
        obnd (new_child caching choose r ElementNode nm fs true) (fun r1 => h_attrs caching choose r1 attrs)
    | XEnd => h_wrap_up caching st r
    | XText s => new_child caching choose r TextNode s (FXml [] []) false
    end.

  (* Read to EOF, in step with Stream.xrun.  The result carries, per delivery, the machine at the
     moment parse() returned and the addressed tree of the node it returned. *)
  Fixpoint hx_run (caching : bool) (choose : st -> choice) (st : Stream.state) (r : rd)
           (rel : list bool) (toks : list xtoken) : option (rd * list (mach * atree)) :=
    match toks with
    | [] => Some (r, [])
    | tk :: rest =>
        match xstep pm pred has_filter old_check st tk with
        | RPanic | RErr => Some (r, [])
        | RCont st' => obnd (hx_token caching choose st r tk) (fun r' => hx_run caching choose st' r' rel rest)
        | RDeliver t n st' =>
            obnd (hx_token caching choose st r tk) (fun r' =>
            match (match r_stack r' with
                   | [] => r_done r'
                   | (_, ks) :: _ => match rev ks with k :: _ => Some k | [] => None end
                   end) with
            | None => None
            | Some ta =>
                (* Release by the caller, or the prologue of the next Read: the node is removed once *)
                match (match (if hd false rel then release st' else Some st') with
                       | Some s => read_prologue s | None => None end) with
                | None => Some (r', [(r_m r', ta)])
                | Some st2 =>
                    obnd (remove_last caching r') (fun r2 =>
                    obnd (hx_run caching choose st2 r2 (tl rel) rest) (fun res =>
                    Some (fst res, (r_m r', ta) :: snd res)))
                end
            end)
        end
    end.
End Decide.

(* ---- idr/jsonreader.go parse(), one token ---------------------------------------------------------------- *)
Section Json.
  Variable pm : list name -> bool.
  Variable pred : tree -> bool.
  Variable has_filter old_check : bool.
  Variable caching : bool.
  Variable choose : st -> choice.

  (* addTextChild: child := CreateJSONNode(TextNode, data, jtype); AddChild(sp.cur, child) *)
  Definition new_text (r : rd) (txt : tree) : option rd :=
    new_child caching choose r (t_type txt) (t_data txt) (t_fs txt) false.
  (* addElementChild *)
  Definition new_elem (r : rd) (data : bytes) (flags : N) : option rd :=
    new_child caching choose r ElementNode data (FJson flags) true.
  (* sp.cur.FormatSpecific = JSONTypeOf(sp.cur) | bit *)
  Definition or_cur (r : rd) (cur : frame) (bit : N) : option rd := set_cur_fs r (f_fs (jor bit cur)).

  Definition hj_token (st : Stream.state) (r : rd) (tk : jtoken) : option rd :=
    match s_stack st with
    | [] => Some r
    | cur :: _ =>
        match tk with
        | JOpenObj =>
            if jflag J_ARR cur then new_elem r [] J_OBJ
            else if jflag J_PROP cur then or_cur r cur J_OBJ
            else if jflag J_ROOT cur then or_cur r cur J_OBJ
            else Some r
        | JOpenArr =>
            if jflag J_ARR cur then new_elem r [] J_ARR
            else if jflag J_PROP cur then or_cur r cur J_ARR
            else if jflag J_ROOT cur then or_cur r cur J_ARR
            else Some r
        | JCloseObj | JCloseArr => h_wrap_up pm pred has_filter old_check caching st r
        | _ =>
            match jtext tk with
            | None => Some r
            | Some txt =>
                if jflag J_OBJ cur then
                  match tk with
                  | JStrT s => new_elem r s J_PROP
                  | _ => Some r
                  end
                else if jflag J_ARR cur then
                  obnd (new_elem r [] J_PROP) (fun r1 =>
                  obnd (new_text r1 txt) (fun r2 =>
                  h_wrap_up pm pred has_filter old_check caching
                    (add_text (candidate_check pm (Stream.push (mkF ElementNode [] (FJson J_PROP) []) st)) txt) r2))
                else if jflag J_PROP cur then
                  obnd (new_text r txt) (fun r1 =>
                  h_wrap_up pm pred has_filter old_check caching (add_text st txt) r1)
                else if jflag J_ROOT cur then
                  obnd (new_text r txt) (fun r1 =>
                  h_wrap_up pm pred has_filter old_check caching (add_text (candidate_check pm st) txt) r1)
                else Some r
            end
        end
    end.

  Fixpoint hj_run (st : Stream.state) (r : rd) (rel : list bool) (toks : list jtoken)
    : option (rd * list (mach * atree)) :=
    match toks with
    | [] => Some (r, [])
    | tk :: rest =>
        match jstep pm pred has_filter old_check st tk with
        | RPanic | RErr => Some (r, [])
        | RCont st' => obnd (hj_token st r tk) (fun r' => hj_run st' r' rel rest)
        | RDeliver t n st' =>
            obnd (hj_token st r tk) (fun r' =>
            match (match r_stack r' with
                   | [] => r_done r'
                   | (_, ks) :: _ => match rev ks with k :: _ => Some k | [] => None end
                   end) with
            | None => None
            | Some ta =>
                match (match (if hd false rel then release st' else Some st') with
                       | Some s => read_prologue s | None => None end) with
                | None => Some (r', [(r_m r', ta)])
                | Some st2 =>
                    obnd (remove_last caching r') (fun r2 =>
                    obnd (hj_run st2 r2 (tl rel) rest) (fun res =>
                    Some (fst res, (r_m r', ta) :: snd res)))
                end
            end)
        end
    end.
End Json.
