(* C12 bridge, executable part 2: what the hierarchy readers of Model/Hier.v
   (flatfile/hierarchyReader.go: csv2, fixedlength2; edi/reader.go) do to the node heap.

   The stack machine of C05 is run with ADDRESSES: every stack entry carries the recNode /
   segNode pointer the Go entry carries, r.target is an address, and the node tree is kept as
   the addressed zipper of Model/HeapReaders.v (the nodes of the entries below the top of the
   stack are exactly the open right spine: a new instance is appended under stackTop(1), and
   nothing is appended to a node once its entry is no longer below the top).
     instantiate  = build the record node (CreateNode, and per column CreateNode / AddChild /
                    CreateNode / AddChild, as linesToNode / rawSegToNode do), then
                    AddChild(stackTop(1).recNode, node) - the pointer used is the one stored in the
                    stack entry, and it is CHECKED to be the address of the zipper's top frame;
     recDone      = r.target = cur.recNode for a target (checked to be the node closed last);
     Read prologue / Release = RemoveAndReleaseTree(r.target).
   Every API call goes through do_op (precondition checked in the state the call is issued in).
   The abstract part of every step is, by construction, the step of Model/Hier.v (Proofs:
   erasure lemmas).  Columns are not part of the C05 model: [cols] is any function. *)
From Coq Require Import List NArith ZArith Bool Arith.
From stdpp Require Import pmap.
From OV Require Import Base.Bytes Base.Cases Base.Tree Model.Hier Model.Heap Model.HeapReaders.
Import ListNotations.

Notation ae := (entry * option addr)%type (only parsing).

(* the addressed state: stack entries with their node pointers, r.target as instance and as
   address, the unprocessed units, the node tree as a zipper, and the number of zipper frames
   whose closing is postponed until the marked target has been removed (closing a frame is
   bookkeeping only; it touches no node) *)
Record hst := mkHS {
  a_stk : list ae; a_tgt : option inst; a_ta : option addr; a_rest : list unt;
  a_rd : rd; a_pending : nat }.

Definition erase (a : hst) : mstate := M (map fst (a_stk a)) (a_tgt a) (a_rest a).

Inductive hact := HUp | HMark (a : option addr).

Inductive ares :=
| AOk (stk : list ae) (tgt : option inst) (ta : option addr) (script : list hact)
| AErr (t : term)
| APanic (site : nat).

Definition prepend (pre : list hact) (r : ares) : ares :=
  match r with AOk s t a sc => AOk s t a (pre ++ sc) | _ => r end.

(* recDone, with pointers *)
Fixpoint rec_done_a (cur : ae) (below : list ae) (tgt : option inst) (ta : option addr) : ares :=
  let d := e_decl (fst cur) in
  let cur1 : ae := (E d (e_node (fst cur)) 0 (S (e_occ (fst cur))), snd cur) in
  let tg :=
    if d_tgt d then
      match tgt with
      | Some _ => inl P_TARGET_SET
      | None => match e_node (fst cur) with
                | None => inl P_NODE_NIL
                | Some n => inr (Some n, snd cur, [HMark (snd cur)])      (* r.target = cur.recNode *)
                end
      end
    else inr (tgt, ta, []) in
  match tg with
  | inl site => APanic site
  | inr (tgt1, ta1, sc) =>
    match below with
    | [] => AOk [cur1] tgt1 ta1 sc
    | p :: b =>
        let p0 : ae := (commit (fst p) (e_node (fst cur)), snd p) in
        if lt_max (e_occ (fst cur1)) (d_max d) then AOk (cur1 :: p0 :: b) tgt1 ta1 sc
        else if e_occ (fst cur1) <? d_min d then AOk (cur1 :: p0 :: b) tgt1 ta1 sc
        else
          if S (e_cur (fst p0)) <? length (d_kids (e_decl (fst p0))) then
            match nth_error (d_kids (e_decl (fst p0))) (S (e_cur (fst p0))) with
            | Some k => AOk ((E k None 0 0, None)
                             :: (E (e_decl (fst p0)) (e_node (fst p0)) (S (e_cur (fst p0))) (e_occ (fst p0)), snd p0)
                             :: b) tgt1 ta1 sc
            | None => APanic P_INDEX
            end
          else prepend (sc ++ [HUp]) (rec_done_a p0 b tgt1 ta1)       (* shrinkStack: p's node is closed *)
    end
  end.

(* recNext, with pointers *)
Definition rec_next_a (stk : list ae) (tgt : option inst) (ta : option addr) : ares :=
  match stk with
  | [] => APanic P_STACKTOP
  | cur :: below =>
      if e_occ (fst cur) <? d_min (e_decl (fst cur)) then AErr (TErrMin (d_name (e_decl (fst cur))) (e_occ (fst cur)))
      else match below with
           | [] => AOk stk tgt ta []
           | p :: b =>
               if S (e_cur (fst p)) <? length (d_kids (e_decl (fst p))) then
                 match nth_error (d_kids (e_decl (fst p))) (S (e_cur (fst p))) with
                 | Some k => AOk ((E k None 0 0, None)
                                  :: (E (e_decl (fst p)) (e_node (fst p)) (S (e_cur (fst p))) (e_occ (fst p)), snd p)
                                  :: b) tgt ta []
                 | None => APanic P_INDEX
                 end
               else prepend [HUp] (rec_done_a p b tgt ta)
           end
  end.

Inductive astep := ACont (a : hst) | ARet (o : Hier.outcome) (a : hst).

(* executing the bookkeeping script on the zipper *)
Fixpoint exec_script (sc : list hact) (r : rd) (ta : option addr) (pend : nat)
  : option (rd * option addr * nat) :=
  match sc with
  | [] => Some (r, ta, pend)
  | HUp :: rest =>
      match ta with
      | Some _ => exec_script rest r ta (S pend)            (* postponed until the target is removed *)
      | None => obnd (go_up r) (fun r' => exec_script rest r' ta pend)
      end
  | HMark a :: rest =>
      match ta, a, last_closed r with
      | None, Some x, Some t => if Pos.eqb (root t) x then exec_script rest r (Some x) pend else None
      | _, _, _ => None
      end
  end.

Definition of_ares (res : ares) (rest : list unt) (a : hst) (r : rd) : option astep :=
  match res with
  | AOk stk tgt ta sc =>
      obnd (exec_script sc r (a_ta a) (a_pending a)) (fun x =>
        let '(r', ta', pend') := x in
        (* the script's own account of r.target must agree *)
        if opt_eqb Pos.eqb ta ta' then Some (ACont (mkHS stk tgt ta' rest r' pend')) else None)
  | AErr t => Some (ARet (OTerm t) a)
  | APanic s => Some (ARet (OTerm (TPanic s)) a)
  end.

Section HierHeap.
  Variable caching : bool.
  Variable choose : st -> choice.
  Variable nm : nat -> bytes.                                  (* decl.Name *)
  Variable cols : nat -> list nat -> list (bytes * bytes).      (* the columns / elements of a record *)
  Variable try_leaf : leaf -> list unt -> option nat.

  (* linesToNode / rawSegToNode / CreateNode for a group *)
  Fixpoint build_cols (r : rd) (cs : list (bytes * bytes)) : option rd :=
    match cs with
    | [] => Some r
    | (cn, cv) :: rest =>
        obnd (new_child caching choose r ElementNode cn FNone true) (fun r1 =>
        obnd (new_child caching choose r1 TextNode cv FNone false) (fun r2 =>
        obnd (go_up r2) (fun r3 => build_cols r3 rest)))
    end.
  Definition build (m : mach) (d : decl) (ids : list nat) : option rd :=
    obnd (tree_init caching choose m ElementNode (nm (d_name d)) FNone) (fun r0 =>
      build_cols r0 (if d_grp d then [] else cols (d_name d) ids)).

  (* idr.AddChild(parent, node) for the record tree just built *)
  Definition attach (main body : rd) (parent : addr) (descend : bool) : option rd :=
    match r_stack main, r_stack body with
    | (cur, ks) :: up, [(n, cs)] =>
        if Pos.eqb cur parent then
          match do_op caching (r_m body) (OAdd parent n) with
          | Some (m2, _) =>
              Some (mkRd m2 (r_env main)
                         (if descend then (n, cs) :: (cur, ks) :: up else (cur, ks ++ [AT n cs]) :: up) None)
          | None => None
          end
        else None
    | _, _ => None
    end.

  Definition has_kids (d : decl) : bool := match d_kids d with [] => false | _ => true end.

  Definition instantiate_a (cur : ae) (below : list ae) (n : nat) (us : list unt) (root_ok : bool) (a : hst)
    : option astep :=
    let d := e_decl (fst cur) in
    if length us <? n then Some (ARet (OTerm (TPanic P_LINES)) a)
    else
      let ids := map u_id (firstn n us) in
      let node := I (d_name d) ids [] in
      let rest := skipn n us in
      match below with
      | [] =>
          if root_ok then
            obnd (build (r_m (a_rd a)) d ids) (fun body =>
            match r_stack body with
            | [(x, _)] =>
                let cur1 : ae := (E d (Some node) (e_cur (fst cur)) (e_occ (fst cur)), Some x) in
                match d_kids d with
                | k :: _ => Some (ACont (mkHS [(E k None 0 0, None); cur1] (a_tgt a) (a_ta a) rest body (a_pending a)))
                | [] => obnd (go_up body) (fun body' => of_ares (rec_done_a cur1 [] (a_tgt a) (a_ta a)) rest a body')
                end
            | _ => None
            end)
          else Some (ARet (OTerm (TPanic P_STACKTOP)) a)
      | p :: _ =>
          match e_node (fst p) with
          | None => Some (ARet (OTerm (TPanic P_PARENT_NIL)) a)
          | Some _ =>
              match snd p with
              | None => None
              | Some parent =>
                  obnd (build (r_m (a_rd a)) d ids) (fun body =>
                  match r_stack body with
                  | [(x, _)] =>
                      let cur1 : ae := (E d (Some node) (e_cur (fst cur)) (e_occ (fst cur)), Some x) in
                      obnd (attach (a_rd a) body parent (has_kids d)) (fun r' =>
                      match d_kids d with
                      | k :: _ => Some (ACont (mkHS ((E k None 0 0, None) :: cur1 :: below) (a_tgt a) (a_ta a) rest r' (a_pending a)))
                      | [] => of_ares (rec_done_a cur1 below (a_tgt a) (a_ta a)) rest a r'
                      end)
                  | _ => None
                  end)
              end
          end
      end.

  Definition hstep_a (a : hst) : option astep :=
    match a_tgt a with
    | Some t => Some (ARet (ODeliver t) a)
    | None =>
        match a_rest a with
        | [] =>
            if length (a_stk a) <=? 1 then Some (ARet (OTerm TEof) a)
            else of_ares (rec_next_a (a_stk a) None (a_ta a)) [] a (a_rd a)
        | _ :: _ =>
            if length (a_stk a) <=? 1 then Some (ARet (OTerm TErrUnexpected) a)
            else match a_stk a with
                 | [] => Some (ARet (OTerm (TPanic P_STACKTOP)) a)
                 | cur :: below =>
                     match read_rec try_leaf (e_decl (fst cur)) (a_rest a) with
                     | None => of_ares (rec_next_a (a_stk a) None (a_ta a)) (a_rest a) a (a_rd a)
                     | Some n => instantiate_a cur below n (a_rest a) false a
                     end
                 end
        end
    end.

  Definition edi_step_a (a : hst) : option astep :=
    match a_tgt a with
    | Some t => Some (ARet (ODeliver t) a)
    | None =>
        match a_rest a with
        | [] =>
            if length (a_stk a) <=? 1 then Some (ARet (OTerm TEof) a)
            else of_ares (rec_next_a (a_stk a) None (a_ta a)) [] a (a_rd a)
        | _ :: _ =>
            match a_stk a with
            | [] => Some (ARet (OTerm (TPanic P_STACKTOP)) a)
            | cur :: below =>
                match read_rec try_leaf (e_decl (fst cur)) (a_rest a) with
                | None =>
                    if length (a_stk a) <=? 1 then Some (ARet (OTerm TErrUnexpected) a)
                    else of_ares (rec_next_a (a_stk a) None (a_ta a)) (a_rest a) a (a_rd a)
                | Some n => instantiate_a cur below n (a_rest a) true a
                end
            end
        end
    end.

  (* the postponed closings *)
  Fixpoint ups (n : nat) (r : rd) : option rd :=
    match n with O => Some r | S k => obnd (go_up r) (ups k) end.

  (* Read prologue / Release: RemoveAndReleaseTree(r.target); r.target = nil *)
  Definition clear_tgt_a (a : hst) : option hst :=
    match a_ta a with
    | None => Some (mkHS (a_stk a) None None (a_rest a) (a_rd a) (a_pending a))
    | Some x =>
        match last_closed (a_rd a) with
        | Some t =>
            if Pos.eqb (root t) x then
              obnd (remove_last caching (a_rd a)) (fun r1 =>
              obnd (ups (a_pending a) r1) (fun r2 =>
              Some (mkHS (a_stk a) None None (a_rest a) r2 0)))
            else None
        | None => None
        end
    end.

  Section Run.
    Variable step_a : hst -> option astep.

    (* Reads until the first terminal result; per delivery: the machine at that moment and the
       address handed out, and the instance the C05 model delivers *)
    Fixpoint run_a (fuel : nat) (a : hst) : option (hst * list (mach * addr * inst)) :=
      match fuel with
      | O => Some (a, [])
      | S f =>
          obnd (step_a a) (fun s =>
          match s with
          | ACont a' => run_a f a'
          | ARet (ODeliver t) a' =>
              match a_ta a' with
              | None => None
              | Some x =>
                  obnd (clear_tgt_a a') (fun a2 =>
                  obnd (run_a f a2) (fun res => Some (fst res, (r_m (a_rd a'), x, t) :: snd res)))
              end
          | ARet (OTerm e) a' => Some (a', [])
          end)
      end.
  End Run.

  (* NewHierarchyReader / edi.NewReader: the root node *)
  Definition init_a (m : mach) (ds : list decl) (us : list unt) : option hst :=
    obnd (tree_init caching choose m DocumentNode (nm ROOT_NAME) FNone) (fun r0 =>
    match r_stack r0 with
    | [(x, _)] =>
        let root : ae := (E (root_decl ds) (Some (I ROOT_NAME [] [])) 0 0, Some x) in
        match ds with
        | [] => obnd (go_up r0) (fun r1 => Some (mkHS [root] None None us r1 0))
        | d :: _ => Some (mkHS [(E d None 0 0, None); root] None None us r0 0)
        end
    | _ => None
    end).
End HierHeap.
