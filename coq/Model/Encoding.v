(* C18 model: parser_settings.encoding and the byte-order mark.
   header/header.go (supportedEncodingMappings, WrapEncoding), schema.go NewTransform
   (ios.StripBOM(WrapEncoding(input)) -- the order is read from Gen/Encoding.v), go-corelib
   ios.StripBOM, golang.org/x/text charmap decoders.  Executable definitions only. *)
From Coq Require Import List NArith Bool String.
From Coq.Strings Require Import Byte.
Import ListNotations.
From OV Require Import Base.Bytes Base.Cases Base.Utf8 Gen.Encoding.
Local Open Scope N_scope.

(* ---- the code pages, written from the Unicode Consortium mapping files -------------------- *)
(* 8859-1.TXT: every byte maps to the code point of the same value. *)
Definition cp_iso8859_1 (b : byte) : rune := b2n b.

(* CP1252.TXT: as 8859-1 except 0x80..0x9F.  The five bytes the file leaves undefined
   (81 8D 8F 90 9D) decode to U+FFFD. *)
Definition cp1252_high : list rune :=
  [ 0x20AC; 0xFFFD; 0x201A; 0x0192; 0x201E; 0x2026; 0x2020; 0x2021;    (* 80..87 *)
    0x02C6; 0x2030; 0x0160; 0x2039; 0x0152; 0xFFFD; 0x017D; 0xFFFD;    (* 88..8F *)
    0xFFFD; 0x2018; 0x2019; 0x201C; 0x201D; 0x2022; 0x2013; 0x2014;    (* 90..97 *)
    0x02DC; 0x2122; 0x0161; 0x203A; 0x0153; 0xFFFD; 0x017E; 0x0178 ].  (* 98..9F *)
Definition cp_windows1252 (b : byte) : rune :=
  let n := b2n b in
  if (128 <=? n) && (n <? 160) then nth (N.to_nat (n - 128)) cp1252_high RuneError else n.

Definition all_bytes : list byte := map (fun n => byte_of_N (N.of_nat n)) (seq 0 256).

(* ---- x/text charmap decoder (charmapDecoder.Transform) ----------------------------------- *)
(* Byte by byte: an ASCII byte is copied (both charmaps are ASCII supersets); any other byte is
   replaced by the UTF-8 encoding stored in the charmap's decode table.  The table content is
   the UTF-8 encoding of the code page's rune: that is what the correspondence validates for
   all 2 x 256 bytes on every run (TableCase). *)
Definition dec_byte (cp : byte -> rune) (b : byte) : bytes :=
  if b2n b <? 128 then [b] else encode_rune (cp b).
Definition decode (cp : byte -> rune) (s : bytes) : bytes := flat_map (dec_byte cp) s.

Definition decode_with (d : decoder_id) (s : bytes) : bytes :=
  match d with
  | DecIdentity => s                       (* func(r io.Reader) io.Reader { return r } *)
  | DecISO8859_1 => decode cp_iso8859_1 s
  | DecWindows1252 => decode cp_windows1252 s
  end.

(* ---- go-corelib ios.StripBOM ---------------------------------------------------------------- *)
(* br.ReadRune(): io.EOF on empty input (reader reset, nothing consumed); otherwise the first
   rune as utf8.DecodeRune sees it (bufio fills until a full rune or the end of input is
   buffered, so reads that split the mark do not matter); the rune is consumed iff it is
   U+FEFF, otherwise UnreadRune puts it back. *)
Definition BOM : rune := 0xFEFF.
Definition bom_bytes : bytes := [xef; xbb; xbf].
Definition strip_bom (s : bytes) : bytes :=
  match s with
  | [] => []
  | _ => let '(r, n) := decode_rune s in if r =? BOM then skipn n s else s
  end.

(* -- the same, read through bufio.Reader from a source that delivers the input in pieces -- *)
(* utf8.FullRune: first[p[0]]&7 is the sequence length a lead byte announces (1 for ASCII and
   for invalid lead bytes); acceptRanges gives the bounds of the second byte. *)
Definition lead_size (b : byte) : nat :=
  let x := b2n b in
  if x <? 194 then 1 else if x <? 224 then 2 else if x <? 240 then 3 else if x <? 245 then 4 else 1.
Definition accept_lo (b : byte) : N :=
  let x := b2n b in if x =? 224 then 160 else if x =? 240 then 144 else 128.
Definition accept_hi (b : byte) : N :=
  let x := b2n b in if x =? 237 then 159 else if x =? 244 then 143 else 191.
Definition full_rune (p : bytes) : bool :=
  match p with
  | [] => false
  | b0 :: r =>
      if Nat.leb (lead_size b0) (List.length p) then true
      else match r with
           | [] => false
           | b1 :: r2 =>
               if negb (in_range (accept_lo b0) (accept_hi b0) b1) then true
               else match r2 with
                    | [] => false
                    | b2 :: _ => negb (in_range 128 191 b2)
                    end
           end
  end.

(* bufio.Reader.ReadRune's loop: fill() (one Read of the source = the next piece) while fewer
   than utf8.UTFMax bytes are buffered, they are not a full rune, and the source has more. *)
Fixpoint fill_until (buf : bytes) (pieces : list bytes) : bytes * list bytes :=
  match pieces with
  | [] => (buf, [])
  | c :: rest =>
      if Nat.leb 4 (List.length buf) || full_rune buf then (buf, pieces) else fill_until (buf ++ c) rest
  end.

(* StripBOM over a source delivering [pieces]: what the returned reader yields in total. *)
Definition strip_bom_pieces (pieces : list bytes) : bytes :=
  let '(buf, rest) := fill_until [] pieces in
  match buf with
  | [] => List.concat rest
  | _ => let '(r, n) := decode_rune buf in
         if r =? BOM then skipn n buf ++ List.concat rest else buf ++ List.concat rest
  end.

(* ---- header.go WrapEncoding + schema.go NewTransform -------------------------------------- *)
Fixpoint assoc (l : list (string * decoder_id)) (k : string) : option decoder_id :=
  match l with
  | [] => None
  | (k', v) :: r => if String.eqb k k' then Some v else assoc r k
  end.

(* f, found := m[StrPtrOrElse(p.Encoding, default)]; if !found { f = m[fallback] }.
   None = f is the nil func (calling it panics). *)
Definition wrap_encoding (enc : option string) : option decoder_id :=
  match assoc enc_map (match enc with Some e => e | None => default_encoding end) with
  | Some d => Some d
  | None => assoc enc_map fallback_encoding
  end.

Definition run_stage (d : decoder_id) (s : bytes) (st : stage) : bytes :=
  match st with
  | StDecode => decode_with d s
  | StStripBOM => strip_bom s
  end.

Inductive outcome := Ok (b : bytes) | PanicNilFunc.

(* The byte stream NewTransform hands to the schema handler's NewIngester. *)
Definition pipeline (enc : option string) (input : bytes) : outcome :=
  match wrap_encoding enc with
  | None => PanicNilFunc
  | Some d => Ok (fold_left (run_stage d) pipeline_order input)
  end.

(* ---- the property's reference: standard conversion to UTF-8 ------------------------------- *)
Inductive encoding := Utf8 | Latin1 | Win1252.
Definition enc_name (e : encoding) : string :=
  match e with Utf8 => "utf-8" | Latin1 => "iso-8859-1" | Win1252 => "windows-1252" end%string.
(* Convert the input to UTF-8 with the standard code page: decode every byte to its code point
   and encode the code points. *)
Definition utf8_of (e : encoding) (s : bytes) : bytes :=
  match e with
  | Utf8 => s
  | Latin1 => encode_runes (map cp_iso8859_1 s)
  | Win1252 => encode_runes (map cp_windows1252 s)
  end.
Definition encoding_of_name (n : string) : option encoding :=
  if String.eqb n "utf-8" then Some Utf8
  else if String.eqb n "iso-8859-1" then Some Latin1
  else if String.eqb n "windows-1252" then Some Win1252
  else None.

(* ---- correspondence ---------------------------------------------------------------------------- *)
(* Long streams are written by the harness as segments: a stretch of the filler pattern
   (byte i of a stretch starting at phase a is 'a' + (a+i) mod 23) or literal bytes. *)
Inductive seg := SFill (phase : N) (len : N) | SLit (b : bytes).
Fixpoint fill (phase : N) (len : nat) : bytes :=
  match len with
  | O => []
  | S k => byte_of_N (97 + phase mod 23) :: fill (phase + 1) k
  end.
Definition expand (l : list seg) : bytes :=
  flat_map (fun s => match s with SFill a n => fill a (N.to_nat n) | SLit b => b end) l.

Inductive c18case :=
  (* rune decoded by WrapEncoding(enc) from each single byte 0..255 (observed through x/text) *)
| TableCase (enc : string) (observed : list N)
  (* bytes the ingester received for (encoding setting, raw input) *)
| PipeCase (enc : option string) (input : bytes) (observed : bytes)
  (* the same for long streams, both sides given as segments *)
| SegPipeCase (enc : option string) (input : list seg) (observed : list seg)
  (* utf-8 (identity decoder): the source delivered the input in exactly these pieces; what the
     reader returned by StripBOM yielded in total *)
| SplitCase (pieces : list bytes) (observed : bytes).

Definition check_case (c : c18case) : bool :=
  match c with
  | TableCase enc obs =>
      match encoding_of_name enc with
      | Some Latin1 => list_eqb N.eqb (map cp_iso8859_1 all_bytes) obs
      | Some Win1252 => list_eqb N.eqb (map cp_windows1252 all_bytes) obs
      | _ => false
      end
  | PipeCase enc input obs =>
      match pipeline enc input with
      | Ok out => bytes_eqb out obs
      | PanicNilFunc => false
      end
  | SegPipeCase enc input obs =>
      match pipeline enc (expand input) with
      | Ok out => bytes_eqb out (expand obs)
      | PanicNilFunc => false
      end
  | SplitCase pieces obs => bytes_eqb (strip_bom_pieces pieces) obs
  end.
