(* C02 Emitted JSON equals the documented evaluation of FINAL_OUTPUT.  Statements only. *)
From Coq Require Import String List ZArith NArith Bool.
Import ListNotations.
From OV Require Import Base.Bytes Gen.Conv Model.Value Proofs.Value.

Theorem normalize_notrim_nonstring : forall keep rt v nt nt',
  (forall s, v <> VStr s) -> normalize nt keep rt v = normalize nt' keep rt v.
Proof. exact normalize_notrim_nonstring. Qed.
