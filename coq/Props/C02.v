(* C02 Emitted JSON equals the documented evaluation of FINAL_OUTPUT.
   Statements only; proofs are in Proofs/{Value,Validate,EvalPure,EvalCache,EvalExamples}.v.
   The xpath engine, the external properties, the custom functions and the custom_parse
   functions are Section variables: every theorem holds for ANY deterministic engine/functions.
   A validated declaration tree is one satisfying wf_b (the shape validate produces; checked on
   every tree dumped from the implementation); V is the set of nodes of the record tree. *)
From Coq Require Import String List ZArith NArith Bool.
Import ListNotations.
From OV Require Import Base.Bytes Base.Tree Gen.Conv Model.Value Model.XPathFrag Model.Decl Model.Eval.
From OV Require Import Proofs.Value Proofs.ValuePrint Proofs.ValueOrder Proofs.Validate Proofs.ValidateWf Proofs.EvalPure Proofs.EvalCache
     Proofs.EvalSpec Proofs.ValidateSpec Proofs.EvalFull Proofs.EvalOrder Proofs.EvalCorners Proofs.EvalShape Proofs.ValueDec
     Proofs.ValidateNoDup Proofs.EvalExamples.
From OV Require Import Gen.EvalShape.

Section C02.
  Variable root : tree.
  Variable query : bytes -> path -> option (list path).
  Variable ext : bytes -> option bytes.
  Variable fsigs : bytes -> option fsig.
  Variable fcall : bytes -> path -> list value -> cfres.
  Variable pcall : bytes -> path -> cfres.
  Variable V : path -> Prop.
  Variable top : vdecl.
  Hypothesis query_V : forall x p ps, V p -> query x p = Some ps -> Forall V ps.
  Hypothesis top_wf : wf_b true top = true.

  (* A fresh ParseCtx with the transform cache on returns, for every declaration of the tree at
     every node, what the cache-off evaluation returns - for every ID type and every assignment
     of pairwise distinct IDs to the nodes. *)
  Theorem eval_cache_transparent :
    forall (K : Type) (K_eqb : K -> K -> bool) (nid : path -> K),
    (forall a b, K_eqb a b = true -> a = b) ->
    (forall p q, V p -> V q -> nid p = nid q -> p = q) ->
    forall d p, In d (subdecls top) -> V p ->
    fst (eval_cached root query ext fsigs fcall pcall K_eqb nid d p [])
    = eval_nocache root query ext fsigs fcall pcall d p.
  Proof. exact (eval_cache_transparent root query ext fsigs fcall pcall V top query_V top_wf). Qed.

  (* C13 (evaluator part): the cache switched on or off, starting from ANY memo whose entries
     satisfy the invariant, gives the cache-off result and leaves a memo satisfying the invariant. *)
  Theorem caches_invisible_eval :
    forall (K : Type) (K_eqb : K -> K -> bool) (nid : path -> K) (disable : bool),
    (disable = false ->
       (forall a b, K_eqb a b = true -> a = b) /\
       (forall p q, V p -> V q -> nid p = nid q -> p = q)) ->
    forall d p m, In d (subdecls top) -> V p ->
    memo_sound root query ext fsigs fcall pcall V top K_eqb nid m ->
    fst (eval root query ext fsigs fcall pcall K K_eqb nid disable false d p m)
    = eval_nocache root query ext fsigs fcall pcall d p
    /\ memo_sound root query ext fsigs fcall pcall V top K_eqb nid
         (snd (eval root query ext fsigs fcall pcall K K_eqb nid disable false d p m)).
  Proof. exact (caches_invisible_eval root query ext fsigs fcall pcall V top query_V top_wf). Qed.

  (* The result is invariant under any change of the (pairwise distinct) node IDs. *)
  Theorem eval_id_renaming :
    forall (K K' : Type) (K_eqb : K -> K -> bool) (K_eqb' : K' -> K' -> bool) (nid : path -> K) (nid' : path -> K'),
    (forall a b, K_eqb a b = true -> a = b) -> (forall a b, K_eqb' a b = true -> a = b) ->
    (forall p q, V p -> V q -> nid p = nid q -> p = q) ->
    (forall p q, V p -> V q -> nid' p = nid' q -> p = q) ->
    forall d p, In d (subdecls top) -> V p ->
    fst (eval_cached root query ext fsigs fcall pcall K_eqb nid d p [])
    = fst (eval_cached root query ext fsigs fcall pcall K_eqb' nid' d p []).
  Proof. exact (eval_id_renaming root query ext fsigs fcall pcall V top query_V top_wf). Qed.
End C02.

(* With the cache key of the code before the F2 repair (node ID / hash, without
   xpathQueryNeeded) the statement is false: the 2-declaration witness of DESIGN section 6 F2. *)
Theorem eval_cache_old_refuted :
  exists top, validated ds_f2 = Some top /\ wf_b true top = true /\
    run_cached true doc_nested top [] <> run_nocache doc_nested top [] /\
    run_cached false doc_nested top [] = run_nocache doc_nested top [] /\
    Some (run_nocache doc_nested top []) = run_spec doc_nested ds_f2 [].
Proof. exact f2_old_key_differs. Qed.

(* Normalisation: omitted unless keep_empty_or_null; trimmed unless no_trim; a cast result has
   the requested kind or the evaluation fails; non-strings are unaffected by no_trim. *)
Theorem normalize_laws :
  (forall nt rt v v', normalize nt false rt v = NSave v' -> is_nil v' = false /\ is_empty v' = false) /\
  (forall keep s v', normalize false keep None (VStr s) = NSave v' -> v' = VStr (trim_space s) /\ trimmed (trim_space s)) /\
  (forall keep s v', normalize true keep None (VStr s) = NSave v' -> v' = VStr s) /\
  (forall nt keep t v v', normalize nt keep (Some t) v = NSave v' -> v' = VNil \/ has_rtype t v') /\
  (forall keep rt v nt nt', (forall s, v <> VStr s) -> normalize nt keep rt v = normalize nt' keep rt v).
Proof. exact normalize_laws. Qed.

(* Template expansion needs at most #declarations + 1 units of fuel: a cycle is an error. *)
Theorem validate_terminates : forall ds fexists pexists, validate ds fexists pexists <> VFuel.
Proof. exact validate_terminates. Qed.

(* The tree-level half of eval_matches_spec (the full theorem is eval_matches_spec below): the
   uncached evaluation of ANY tree of the shape wf_b equals the documented evaluation (spec_tf: D2
   anchoring, D3 composition / argument passing, D4 a single normalisation) of the declarations
   the tree stands for (erase top).  (Formerly eval_matches_spec_partial, with two printing
   hypotheses that are theorems now.) *)
Theorem eval_matches_spec_tree :
  forall root query ext fsigs fcall pcall,
  (forall x p ps, valid root p -> query x p = Some ps -> Forall (valid root) ps) ->
  forall top, wf_b true top = true -> funcs_ok fsigs top ->
  forall p, valid root p ->
  eval_nocache root query ext fsigs fcall pcall top p
  = to_res (spec_tf root query ext fsigs fcall pcall (erase top) false p).
Proof.
  intros root query ext fsigs fcall pcall Hq.
  exact (eval_matches_spec_tree root query ext fsigs fcall pcall Hq print_int_trim print_flt_trim).
Qed.

(* With array children sorted by fqdn string (validateArray before the F3 repair) the documented
   order is lost for >= 10 children. *)
Theorem array_order_old_refuted :
  exists top, validated ds_f3 = Some top /\ wf_b true top = true /\
    Some (run_nocache doc_nested top []) = run_spec doc_nested ds_f3 [] /\
    Some (run_nocache doc_nested (legacy_array_sort top) []) <> run_spec doc_nested ds_f3 [].
Proof. exact f3_sorted_children_differ. Qed.

(* With a hash that does not include the resolved kinds (before the F19 repair) an empty object
   and a field with the same xpath share a cache entry. *)
Theorem hash_collision_old_refuted :
  exists top, validated ds_f19 = Some top /\ wf_b true top = true /\
    run_cached false doc_nested top [] = run_nocache doc_nested top [] /\
    run_cached false doc_nested (legacy_hash top) [] <> run_nocache doc_nested (legacy_hash top) [].
Proof. exact f19_kindless_hash_collides. Qed.

(* Without the element -> array parent link (before the F20 repair, for arrays below
   xpath_dynamic) every element has its xpath applied a second time. *)
Theorem array_element_link_old_refuted :
  exists top, validated ds_f20b = Some top /\ wf_b true top = true /\
    Some (run_nocache doc_qx top []) = run_spec doc_qx ds_f20b [] /\
    Some (run_nocache doc_qx (legacy_unlink top) []) <> run_spec doc_qx ds_f20b [].
Proof. exact f20_unlinked_elements_requery. Qed.

(* The emitted field name of an object member is exactly the declared name: on the fqdn as a list
   of namelets (what eval uses: obj_key), and on the fqdn STRING as the Go code computes it
   (strs.BuildFQDN / BuildFQDNWithEsc / SplitWithEsc / Unescape), for every name and every parent
   fqdn that does not end in an unfinished escape (esc_state_build: validate only builds such). *)
Theorem fqdn_key_roundtrip : forall parent name,
  esc_state parent false = false ->
  last_namelet_str (build_fqdn parent (esc_name name)) = name
  /\ esc_state (build_fqdn parent (esc_name name)) false = false.
Proof. intros. split; [apply fqdn_key_roundtrip|apply esc_state_build]; assumption. Qed.

Theorem obj_key_roundtrip : forall parent name, obj_key (parent ++ [esc_name name]) = name.
Proof. exact obj_key_roundtrip. Qed.

(* ---- the main statement, in full -------------------------------------------------------------------- *)
(* What validate accepts has the shape wf_b and calls only functions the validation found
   registered (decl_nodup: transform_declarations came out of Go maps, so an object lists each
   field name once). *)
Theorem validate_wf : forall ds fexists pexists,
  (forall name body, lookup name ds = Some body -> decl_nodup body = true) ->
  forall top, validate ds fexists pexists = VOk top ->
  wf_b true top = true /\ funcs_b fexists top = true.
Proof. exact validate_wf. Qed.

(* Template expansion by validate = substitution (D1): the validated tree stands for exactly the
   expanded declarations, up to the order of object members (validateObject sorts them). *)
Theorem validate_expand : forall ds fexists pexists,
  (forall name body, lookup name ds = Some body -> decl_nodup body = true) ->
  forall top, validate ds fexists pexists = VOk top ->
  exists d', expand_final ds = Some d' /\ osort d' = erase top /\ decl_nodup d' = true.
Proof. exact validate_expand. Qed.

(* The printed forms of numbers carry no surrounding white space. *)
Theorem print_trimmed : (forall z, trim_space (Z_to_dec z) = Z_to_dec z) /\ (forall f, trim_space (fmt_float f) = fmt_float f).
Proof. split; [exact print_int_trim|exact print_flt_trim]. Qed.

(* eval_matches_spec: for every accepted schema, every record tree, every node and every
   engine / functions, the evaluation of the validated FINAL_OUTPUT is the documented evaluation
   (eval_spec, written from doc/transforms.md and doc/xpath.md on the declarations as authored:
   templates by substitution, anchoring, composition, argument passing, one normalisation). *)
Theorem eval_matches_spec : forall root query ext fsigs fcall pcall ds fexists pexists top,
  (forall x p ps, valid root p -> query x p = Some ps -> Forall (valid root) ps) ->
  (forall name, fexists name = true -> fsigs name <> None) ->
  (forall name body, lookup name ds = Some body -> decl_nodup body = true) ->
  validate ds fexists pexists = VOk top ->
  forall p, valid root p ->
  eval_spec root query ext fsigs fcall pcall ds p
  = Some (eval_nocache root query ext fsigs fcall pcall top p).
Proof. exact eval_matches_spec. Qed.

(* ... and so is what a fresh ParseCtx with the transform cache ON computes (any ID type, any
   pairwise distinct node IDs): the emitted value is the documented one. *)
Theorem emitted_value_is_documented :
  forall root query ext fsigs fcall pcall ds fexists pexists top
         (K : Type) (K_eqb : K -> K -> bool) (nid : path -> K),
  (forall x p ps, valid root p -> query x p = Some ps -> Forall (valid root) ps) ->
  (forall name, fexists name = true -> fsigs name <> None) ->
  (forall name body, lookup name ds = Some body -> decl_nodup body = true) ->
  (forall a b, K_eqb a b = true -> a = b) ->
  (forall p q, valid root p -> valid root q -> nid p = nid q -> p = q) ->
  validate ds fexists pexists = VOk top ->
  forall p, valid root p ->
  eval_spec root query ext fsigs fcall pcall ds p
  = Some (fst (eval_cached root query ext fsigs fcall pcall K_eqb nid top p [])).
Proof.
  intros root query ext fsigs fcall pcall ds fe pe top K K_eqb nid Hq Hfe Hnd Keq Ninj Hv p Hp.
  rewrite (Proofs.EvalCache.eval_cache_transparent root query ext fsigs fcall pcall (valid root) top Hq
             (proj1 (Proofs.ValidateWf.validate_wf ds fe pe Hnd top Hv)) K K_eqb nid Keq Ninj top p (self_sub top) Hp).
  apply Proofs.EvalFull.eval_matches_spec with (fexists := fe) (pexists := pe); assumption.
Qed.

(* eval_order_independent: the value of an object is invariant under any permutation of its
   member declarations, i.e. of the iteration order of the Go map they were unmarshalled into
   (distinct field names).  same_outcome: equal values; a failing evaluation stays failing. *)
Theorem eval_order_independent : forall root query ext fsigs fcall pcall i x ks ks' p,
  p_kind (v_pub i) = KObject ->
  NoDup (map (fun c => obj_key (v_fqdn (vd_info c))) ks) ->
  Permutation.Permutation ks ks' ->
  same_outcome (eval_nocache root query ext fsigs fcall pcall (VD i x ks) p)
               (eval_nocache root query ext fsigs fcall pcall (VD i x ks') p).
Proof. exact object_order_independent. Qed.

(* ... and so is the documented evaluation: sorting the members of every object of a declaration
   (what validateObject does) does not change eval_spec's value. *)
Theorem spec_order_independent : forall root query ext fsigs fcall pcall d,
  decl_nodup d = true -> forall a p,
  spec_tf root query ext fsigs fcall pcall (osort d) a p = spec_tf root query ext fsigs fcall pcall d a p.
Proof. exact spec_tf_osort. Qed.

(* Corners.  An xpath_dynamic that cannot be computed (its declaration fails, or yields nil, a
   non-string or a blank string) gives the anchored declaration the null result: it never fails
   the record (undocumented; the spec follows the implementation here). *)
Theorem xpath_dynamic_failure_is_null : forall root query ext fsigs fcall pcall i q ks p,
  anchoring_kind (p_kind (v_pub i)) = true ->
  needed i true = true ->
  static_xpath (einfo_of i true) = None ->
  (forall s, eval_nocache root query ext fsigs fcall pcall q p = Ok (VStr s) -> is_nonblank s = false) ->
  eval_nocache root query ext fsigs fcall pcall q p <> Panic ->
  eval_nocache root query ext fsigs fcall pcall (VD i (Some q) ks) p = Ok VNil.
Proof. exact xpath_dynamic_failure_is_null. Qed.

(* ignore_error turns a failing custom function into the null result; without it the record fails. *)
Theorem ignore_error_corner : forall root query ext fsigs fcall pcall i name p,
  p_kind (v_pub i) = KCustomFunc -> p_fname (v_pub i) = Some name ->
  needed i false = false ->
  fsigs name = Some (mkSig [] None) -> fcall name p [] = CfErr ->
  eval_nocache root query ext fsigs fcall pcall (VD i None []) p = if p_ignore (v_pub i) then Ok VNil else Err.
Proof. exact ignore_error_corner. Qed.

(* With the xpath_dynamic of a template reference validated twice (validateTemplate before the
   F28 repair) the children of an array below it are doubled and the value is no longer the
   documented one. *)
Theorem double_validation_old_refuted :
  exists top, validated ds_f28 = Some top /\ wf_b true top = true /\
    Some (run_nocache doc_abab top []) = run_spec doc_abab ds_f28 [] /\
    Some (run_nocache doc_abab (legacy_double_validation top) []) <> run_spec doc_abab ds_f28 [].
Proof. exact f28_double_validation_differs. Qed.

(* ---- ties to the source (Gen/EvalShape.v is regenerated from /repo on every run) ------------------ *)
(* normalizeAndSaveValue and its checkToSave closure, read statement by statement off value.go,
   compute exactly the closed forms all normalisation theorems are proved about. *)
Theorem normalize_matches_source :
  (forall nt keep rt v, normalize_src nt keep rt v = normalize nt keep rt v) /\
  (forall keep v, run_cts check_to_save_steps keep v = check_to_save keep v) /\
  incl [EkString; EkSlice; EkMap] empty_kinds.
Proof. split; [exact normalize_src_eq|split; [exact check_to_save_src|exact empty_kinds_cover]]. Qed.

(* xpathQueryNeeded (Model.Eval.needed) is the conjunction of the extracted conjuncts;
   the transform cache key, the order of validateDecl's steps, which children lists are sorted by
   what, and the nil -> zero value / AssignableTo handling of arguments are the ones the model
   transcribes. *)
Theorem source_shape :
  (forall i x, needed i x = forallb (needed_atom_holds i x) needed_atoms) /\
  needed_atoms = [NaNotFinalOutput; NaXPathSet; NaParentNotArray] /\
  cache_key_parts = [KpNodeID; KpDeclHash; KpXPathQueryNeeded] /\
  validate_steps = [VsNilCheck; VsValidateXPath; VsSetFqdn; VsResolveKind; VsKindSwitch; VsComputeHash; VsReturn] /\
  object_children_sort = SkFqdnAscending /\ array_children_sort = SkNone /\ func_args_sort = SkNone /\
  arg_nil_is_zero = true /\ arg_type_check = AcAssignableOrError /\
  normalize_return_pinned = true.
Proof. split; [exact needed_src|exact source_shape]. Qed.

(* validateObject sorts by the FULL fqdn string; among the children of one parent that is the
   order of the last (escaped) namelet, which is what Model.Decl.sort_kids compares. *)
Theorem sibling_fqdn_order : forall parent a b,
  bytes_ltb (build_fqdn parent a) (build_fqdn parent b) = bytes_ltb a b.
Proof. exact sibling_fqdn_order. Qed.

(* The F28 class: validate never hands one declaration to a parent twice.  In every node of the
   validated tree the children have pairwise different fqdns (object members: distinct escaped
   names; array elements elem[i] and arguments arg[i]: distinct positions - decimal printing is
   injective). *)
Theorem validate_no_duplicate_children : forall ds fexists pexists,
  (forall name body, lookup name ds = Some body -> decl_nodup body = true) ->
  forall top, validate ds fexists pexists = VOk top ->
  forall d, In d (subdecls top) -> NoDup (kid_fqdns d).
Proof. exact validate_no_duplicate_children. Qed.

Theorem decimal_printing_injective : forall a b, N_to_dec a = N_to_dec b -> a = b.
Proof. exact N_to_dec_inj. Qed.

(* the hypotheses of the validate theorems are satisfiable: the F28 witness declarations *)
Example ds_f28_nodup : forall name body, lookup name ds_f28 = Some body -> decl_nodup body = true.
Proof.
  intros name body H. unfold ds_f28 in H. cbn [lookup] in H.
  destruct (bytes_eqb name FINAL_OUTPUT); [injection H as <-; vm_compute; reflexivity|].
  destruct (bytes_eqb name (bs "t")); [injection H as <-; vm_compute; reflexivity|discriminate].
Qed.
