(* C02 Emitted JSON equals the documented evaluation of FINAL_OUTPUT.
   Statements only; proofs are in Proofs/{Value,Validate,EvalPure,EvalCache,EvalExamples}.v.
   The xpath engine, the external properties, the custom functions and the custom_parse
   functions are Section variables: every theorem holds for ANY deterministic engine/functions.
   A validated declaration tree is one satisfying wf_b (the shape validate produces; checked on
   every tree dumped from the implementation); V is the set of nodes of the record tree. *)
From Coq Require Import String List ZArith NArith Bool.
Import ListNotations.
From OV Require Import Base.Bytes Base.Tree Gen.Conv Model.Value Model.XPathFrag Model.Decl Model.Eval.
From OV Require Import Proofs.Value Proofs.Validate Proofs.EvalPure Proofs.EvalCache Proofs.EvalExamples.

Section C02.
  Variable root : tree.
  Variable query : bytes -> path -> option (list path).
  Variable ext : bytes -> option bytes.
  Variable fsigs : bytes -> option fsig.
  Variable fcall : bytes -> path -> list value -> cfres.
  Variable pcall : bytes -> path -> cfres.
  Variable V : path -> Prop.
  Variable top : vdecl.
  Hypothesis query_V : forall x p ps, V p -> query x p = Some ps -> Forall V ps.
  Hypothesis top_wf : wf_b true top = true.

  (* A fresh ParseCtx with the transform cache on returns, for every declaration of the tree at
     every node, what the cache-off evaluation returns - for every ID type and every assignment
     of pairwise distinct IDs to the nodes. *)
  Theorem eval_cache_transparent :
    forall (K : Type) (K_eqb : K -> K -> bool) (nid : path -> K),
    (forall a b, K_eqb a b = true -> a = b) ->
    (forall p q, V p -> V q -> nid p = nid q -> p = q) ->
    forall d p, In d (subdecls top) -> V p ->
    fst (eval_cached root query ext fsigs fcall pcall K_eqb nid d p [])
    = eval_nocache root query ext fsigs fcall pcall d p.
  Proof. exact (eval_cache_transparent root query ext fsigs fcall pcall V top query_V top_wf). Qed.

  (* C13 (evaluator part): the cache switched on or off, starting from ANY memo whose entries
     satisfy the invariant, gives the cache-off result and leaves a memo satisfying the invariant. *)
  Theorem caches_invisible_eval :
    forall (K : Type) (K_eqb : K -> K -> bool) (nid : path -> K) (disable : bool),
    (disable = false ->
       (forall a b, K_eqb a b = true -> a = b) /\
       (forall p q, V p -> V q -> nid p = nid q -> p = q)) ->
    forall d p m, In d (subdecls top) -> V p ->
    memo_sound root query ext fsigs fcall pcall V top K_eqb nid m ->
    fst (eval root query ext fsigs fcall pcall K K_eqb nid disable false d p m)
    = eval_nocache root query ext fsigs fcall pcall d p
    /\ memo_sound root query ext fsigs fcall pcall V top K_eqb nid
         (snd (eval root query ext fsigs fcall pcall K K_eqb nid disable false d p m)).
  Proof. exact (caches_invisible_eval root query ext fsigs fcall pcall V top query_V top_wf). Qed.

  (* The result is invariant under any change of the (pairwise distinct) node IDs. *)
  Theorem eval_id_renaming :
    forall (K K' : Type) (K_eqb : K -> K -> bool) (K_eqb' : K' -> K' -> bool) (nid : path -> K) (nid' : path -> K'),
    (forall a b, K_eqb a b = true -> a = b) -> (forall a b, K_eqb' a b = true -> a = b) ->
    (forall p q, V p -> V q -> nid p = nid q -> p = q) ->
    (forall p q, V p -> V q -> nid' p = nid' q -> p = q) ->
    forall d p, In d (subdecls top) -> V p ->
    fst (eval_cached root query ext fsigs fcall pcall K_eqb nid d p [])
    = fst (eval_cached root query ext fsigs fcall pcall K_eqb' nid' d p []).
  Proof. exact (eval_id_renaming root query ext fsigs fcall pcall V top query_V top_wf). Qed.
End C02.

(* With the cache key of the code before the F2 repair (node ID / hash, without
   xpathQueryNeeded) the statement is false: the 2-declaration witness of DESIGN section 6 F2. *)
Theorem eval_cache_old_refuted :
  exists top, validated ds_f2 = Some top /\ wf_b true top = true /\
    run_cached true doc_nested top [] <> run_nocache doc_nested top [] /\
    run_cached false doc_nested top [] = run_nocache doc_nested top [] /\
    Some (run_nocache doc_nested top []) = run_spec doc_nested ds_f2 [].
Proof. exact f2_old_key_differs. Qed.

(* Normalisation: omitted unless keep_empty_or_null; trimmed unless no_trim; a cast result has
   the requested kind or the evaluation fails; non-strings are unaffected by no_trim. *)
Theorem normalize_laws :
  (forall nt rt v v', normalize nt false rt v = NSave v' -> is_nil v' = false /\ is_empty v' = false) /\
  (forall keep s v', normalize false keep None (VStr s) = NSave v' -> v' = VStr (trim_space s) /\ trimmed (trim_space s)) /\
  (forall keep s v', normalize true keep None (VStr s) = NSave v' -> v' = VStr s) /\
  (forall nt keep t v v', normalize nt keep (Some t) v = NSave v' -> v' = VNil \/ has_rtype t v') /\
  (forall keep rt v nt nt', (forall s, v <> VStr s) -> normalize nt keep rt v = normalize nt' keep rt v).
Proof. exact normalize_laws. Qed.

(* Template expansion needs at most #declarations + 1 units of fuel: a cycle is an error. *)
Theorem validate_terminates : forall ds fexists pexists, validate ds fexists pexists <> VFuel.
Proof. exact validate_terminates. Qed.
