(* C04 Streaming target selection equals whole-document selection (XML, JSON).
   Statements only; proofs in Proofs/Stream*.v.

   Vocabulary (Model/Stream.v): a target of the property's class is a predicate [pm] on the chain
   of element names from the root to a node (covers absolute paths, "//" and wildcards at once)
   plus a predicate [pred] on the node's own subtree (the final-step predicates);
   [whole_doc_selection pm pred doc] = the nodes of [doc] on the path, outermost only, in document
   order, kept iff they satisfy [pred], each with its complete subtree.  [xrun]/[jrun] are the
   readers' Read-to-EOF loops over the decoder's token stream; [rel] says after which deliveries
   the caller calls Release. *)
From Coq Require Import List NArith Bool String.
Import ListNotations.
From OV Require Import Base.Bytes Base.Tree Model.Stream Proofs.Stream Proofs.StreamXml Proofs.StreamJson Proofs.StreamSplit Proofs.StreamInv Proofs.StreamRetain Proofs.StreamSys.
From OV Require Import Gen.StreamSplit.

(* For every XML document, every target of the class and every Release pattern: the reader ends
   with EOF and the delivered snapshots are exactly the whole-document selection (same nodes,
   same order, complete subtrees, none twice, none skipped).  [has_filter] is the reader's
   "closing check installed" flag; without it the target has no final predicate.
   Forced hypothesis [pm [] = false]: the path part must not select the document node itself
   (targets "." and "/": the XML reader then delivers the top-level ELEMENT, see the report). *)
Theorem xml_stream_eq_select :
  forall (pm : list name -> bool) (pred : tree -> bool) (has_filter : bool),
    (has_filter = false -> forall t, pred t = true) ->
    pm [] = false ->
    forall content rel,
      exists L, xrun pm pred has_filter false x_init rel (xdoc_events content) = (L, FEOF) /\
                map fst L = whole_doc_selection pm pred (xdoc_tree content).
Proof. exact xml_stream_eq_select_proof. Qed.

(* The same for JSON, for every JSON value (scalars, arrays, objects at any level, also as the
   whole document) and every target of the class, including targets that select the document
   node itself ("." - the whole document is then the one record). *)
Theorem json_stream_eq_select :
  forall (pm : list name -> bool) (pred : tree -> bool) (has_filter : bool),
    (has_filter = false -> forall t, pred t = true) ->
    forall j rel, jwf j = true ->
      exists L, jrun pm pred has_filter false j_init rel (jdoc_events j) = (L, FEOF) /\
                map fst L = whole_doc_selection pm pred (jdoc_tree j).
Proof. exact json_stream_eq_select_proof. Qed.

(* "outermost matches of the path part, then the final predicates" is the recursion that stops
   at the first node on the path. *)
Theorem whole_doc_selection_is_spec : forall pm pred doc,
  whole_doc_selection pm pred doc = spec pm pred [] doc.
Proof. exact whole_doc_selection_is_spec. Qed.

(* removeTrailingFiltersInXPath on the concrete syntax: for every well-formed target of the class
   (names without quotes, brackets or blanks; string values that do not contain both kinds of
   quote - anything else, including brackets and the other quote, is allowed inside; nested
   predicates x[...]; any number of trailing predicates) the text used for the candidate check is
   exactly the path part, the closing check is installed iff there is a predicate, and the fuel
   of the modelled loop suffices. *)
Theorem split_filter_sound : forall tg, target_ok tg ->
  split_filter (render_target tg) =
  Some (render_steps (t_steps tg), negb (match t_filters tg with [] => true | _ => false end)).
Proof. exact split_filter_sound_proof. Qed.

(* The invariant of the XML reader, over ANY token sequence (well-formed or not) and ANY use of
   Release / Read prologues ([xreach]): [sinv] - with no candidate open no node of the partial
   tree is on the target path; with a candidate open (or just returned) that holds of the tree
   without the candidate's subtree, the candidate's own chain is on the path, and cur is the
   candidate or inside it.  (cur and its ancestors are the spine of the zipper by construction.)
   Full statement of the plan also had "the zipper reassembles to a prefix of the document": that
   clause is not part of this theorem - it is subsumed, for complete documents, by
   xml_stream_eq_select (every delivery equals the complete subtree) - hence _partial. *)
Theorem stream_invariant_partial :
  forall (pm : list name -> bool) (pred : tree -> bool) (has_filter : bool),
    (has_filter = false -> forall t, pred t = true) ->
    pm [] = false ->
    forall st, xreach pm pred has_filter st -> sinv pm st.
Proof. exact stream_invariant_proof. Qed.

(* Whatever the history, a node handed out satisfies the final predicates itself. *)
Theorem delivered_satisfies_pred :
  forall (pm : list name -> bool) (pred : tree -> bool) (has_filter : bool),
    (has_filter = false -> forall t, pred t = true) ->
    pm [] = false ->
    forall st tk t n st',
      xreach pm pred has_filter st -> s_stream st <> SClosed ->
      xstep pm pred has_filter false st tk = RDeliver t n st' -> pred t = true.
Proof. exact delivered_satisfies_pred_proof. Qed.

(* The split each reader actually installs: which function New{XML,JSON}StreamReader applies to the
   target text, the characters removeLastFilterInXPath reacts to and the trim cutset of
   removeTrailingFiltersInXPath are EXTRACTED from the source on every run (Gen/StreamSplit.v); the
   theorem is re-checked over what the source says now. *)
Theorem split_filter_readers : forall tg, target_ok tg ->
  split_filter_by gen_xml_splitfn (render_target tg) =
    Some (render_steps (t_steps tg), negb (match t_filters tg with [] => true | _ => false end))
  /\ split_filter_by gen_json_splitfn (render_target tg) =
    Some (render_steps (t_steps tg), negb (match t_filters tg with [] => true | _ => false end)).
Proof. exact split_filter_readers_proof. Qed.

(* The attribute loop of the XML reader (parse(), case xml.StartElement), turn by turn
   ([add_attr]: attribute node becomes cur, its value is hung below it - also the empty value -,
   cur goes back to the element).  For EVERY attribute list, every element frame, every rest of
   the spine and every stream pointer: cur is the element again, the stream pointer and the spine
   are untouched, and the element has gained exactly one attribute node per attribute, in order,
   each with exactly one text child holding the value. *)
Theorem xml_attribute_loop : forall attrs g rest s,
  fold_left add_attr attrs (mkS (g :: rest) None s) =
  mkS (mkF (f_ty g) (f_data g) (f_fs g) (f_kids g ++ map attr_node attrs) :: rest) None s.
Proof. exact add_attrs_eq. Qed.

(* ... hence a start tag = new element frame holding its attribute nodes, then the candidate check *)
Theorem xml_start_element : forall pm stack d s nm fs attrs,
  xstart pm (mkS stack d s) nm fs attrs =
  candidate_check pm (mkS (mkF ElementNode nm fs (map attr_node attrs) :: stack) None s).
Proof. exact xstart_eq. Qed.

(* cur / stream bookkeeping at every end tag: for EVERY element or character data [x] (any
   nesting, any attributes), from any state between tokens with no candidate open, after the
   events of [x] the spine is the one before - only cur's child list has grown by what [x] leaves
   behind ([grow]: nothing if [x] is on the path, its pruned tree otherwise) -, no candidate is
   open, the invariant holds again, and the deliveries are [xspec]. *)
Theorem xml_element_bookkeeping :
  forall (pm : list name -> bool) (pred : tree -> bool) (has_filter : bool),
    (has_filter = false -> forall t, pred t = true) ->
    forall x f r rel rest, Inv pm (f :: r) ->
      exists L, map fst L = xspec pm pred (chain_of (f :: r)) x /\
        xrun pm pred has_filter false (mkS (f :: r) None SNone) rel (xevents x ++ rest) =
        prepend L (xrun pm pred has_filter false
                     (mkS (add_kids f (grow pm (chain_of (f :: r)) x) :: r) None SNone)
                     (skipn (List.length L) rel) rest) /\
        Inv pm (add_kids f (grow pm (chain_of (f :: r)) x) :: r) /\
        (pm (chain_of (f :: r) ++ [xname x]) = true ->
         Forall (fun d => snd d = retained (mkS (f :: r) None SNone) + tree_size (xtree x)) L).
Proof. exact run_node. Qed.

(* Several readers alive at once ([sys_run]: a schedule names, step by step, the reader that
   consumes its next token).  The readers of the model share NOTHING - that is an assumption about
   the implementation, checked there by the interleaving oracle (a process-wide table would break
   it: C04-r32).  Under it, for EVERY schedule and every set of readers, reader i is exactly where
   its own steps take it ... *)
Theorem reader_independent :
  forall pm pred has_filter sched rds i rd,
    nth_error rds i = Some rd ->
    nth_error (sys_run pm pred has_filter sched rds) i =
    Some (Nat.iter (count_occ PeanoNat.Nat.eq_dec sched i) (xreader_step pm pred has_filter) rd).
Proof. exact reader_independent_proof. Qed.

(* ... and once the schedule has let it run to its end, what it delivered is what its solo
   Read-to-EOF loop delivers (so xml_stream_eq_select applies to every reader of the system). *)
Theorem interleaved_eq_solo :
  forall pm pred has_filter sched rds i rel toks,
    nth_error rds i = Some (xreader_init rel toks) ->
    List.length toks < count_occ PeanoNat.Nat.eq_dec sched i ->
    exists rd, nth_error (sys_run pm pred has_filter sched rds) i = Some rd /\
               xr_out rd = fst (xrun pm pred has_filter false x_init rel toks) /\
               xr_status rd = Ended (snd (xrun pm pred has_filter false x_init rel toks)).
Proof. exact interleaved_eq_solo_proof. Qed.

(* Union targets "alt1 | alt2 | main" without trailing filters are inside the class: the path
   predicate is the disjunction of the branches ([pm_union]), so for every union, every document
   and every Release pattern the deliveries are the whole-document selection of the union in
   document order; and the split leaves the union text alone (no closing check).  Unions WITH a
   trailing filter have a final predicate that depends on the branch - outside the class, compared
   on the implementation only. *)
Theorem xml_stream_eq_select_union : forall alts tg content rel,
  pm_union alts tg [] = false ->
  exists L, xrun (pm_union alts tg) ptrue false false x_init rel (xdoc_events content) = (L, FEOF) /\
            map fst L = whole_doc_selection (pm_union alts tg) ptrue (xdoc_tree content).
Proof. exact xml_stream_eq_select_union_proof. Qed.

Theorem json_stream_eq_select_union : forall alts tg j rel,
  jwf j = true ->
  exists L, jrun (pm_union alts tg) ptrue false false j_init rel (jdoc_events j) = (L, FEOF) /\
            map fst L = whole_doc_selection (pm_union alts tg) ptrue (jdoc_tree j).
Proof. exact json_stream_eq_select_union_proof. Qed.

Theorem split_filter_union : forall alts steps,
  Forall (fun s => nt_ok (snd s)) steps ->
  split_filter (render_alts alts ++ render_steps steps) = Some (render_alts alts ++ render_steps steps, false).
Proof. exact split_filter_union_proof. Qed.

Theorem release_then_prologue : forall st st1,
  release st = Some st1 -> read_prologue st1 = read_prologue st.
Proof. exact release_then_prologue. Qed.

(* ---- witnesses and non-vacuity ------------------------------------------------------------------- *)
Local Open Scope string_scope.
Definition E (n : String.string) (ks : list xnode) : xnode := XE (bs n) (FXml [] []) [] ks.
Definition nt (n : String.string) : nametest := NTName [] (bs n).

(* F13 (repaired in /repo 42cabe2): with the old closing check "does ANY node match the full
   xpath" the outer <n> of <r><n><n><x>1</x></n></n></r> is delivered for //n[x='1'] although it
   has no child x; whole-document selection (outermost //n, kept iff it satisfies the predicate)
   is empty.  With the repaired check the model delivers nothing, as the theorem says. *)
Definition f13_doc := [E "r" [E "n" [E "n" [E "x" [XT (bs "1")]]]]].
Definition f13_tg := mkTarget [(Desc, nt "n")] [PChildEq (nt "x") (bs "1")].
Example stream_nested_old_refuted :
  map fst (fst (xrun (pm_of f13_tg) (pred_target f13_tg) true true x_init [] (xdoc_events f13_doc)))
    = [xtree (E "n" [E "n" [E "x" [XT (bs "1")]]])]
  /\ whole_doc_selection (pm_of f13_tg) (pred_target f13_tg) (xdoc_tree f13_doc) = []
  /\ fst (xrun (pm_of f13_tg) (pred_target f13_tg) true false x_init [] (xdoc_events f13_doc)) = [].
Proof. vm_compute. repeat split. Qed.

(* F21 (repaired in /repo 6bddcb3): stripping only the LAST predicate leaves /r/n[x='1'] for the
   candidate check at element start, where no element has children yet. *)
Definition f21_tg := mkTarget [(Child, nt "r"); (Child, nt "n")]
                              [PChildEq (nt "x") (bs "1"); PChildEq (nt "y") (bs "2")].
Example split_filter_multi_old_refuted :
  fst (split_filter_old (render_target f21_tg)) = bs "/r/n[x='1']"
  /\ split_filter (render_target f21_tg) = Some (bs "/r/n", true).
Proof. vm_compute. split; reflexivity. Qed.

(* nested candidates: //a in <a><a/></a> delivers the outer a once, complete *)
Example nonvacuous_nested :
  let doc := [E "a" [E "a" []]] in
  let tg := mkTarget [(Desc, nt "a")] [] in
  map fst (fst (xrun (pm_of tg) (pred_target tg) false false x_init [true] (xdoc_events doc)))
  = [xtree (E "a" [E "a" []])].
Proof. vm_compute. reflexivity. Qed.

(* rejected-then-accepted siblings and several candidates per parent, mixed content, attributes *)
Example nonvacuous_siblings :
  let n v := XE (bs "n") (FXml [] []) [(bs "id", FXml [] [], bs v)] [E "x" [XT (bs v)]; XT (bs " ")] in
  let doc := [E "r" [n "0"; XT (bs "sep"); n "1"; n "0"; n "1"]] in
  let tg := mkTarget [(Child, nt "r"); (Child, NTAny)] [PChildEq (nt "x") (bs "1"); PAttrEq ([], bs "id") (bs "1")] in
  map fst (fst (xrun (pm_of tg) (pred_target tg) true false x_init [true; false] (xdoc_events doc)))
  = [xtree (n "1"); xtree (n "1")]
  /\ pm_of tg [] = false.
Proof. vm_compute. split; reflexivity. Qed.

(* JSON: scalar, array and object targets, and the whole document *)
Definition jdoc1 := JO [] [JA (bs "a") [JS [] (JNumT (bs "1")); JO [] [JS (bs "b") (JNumT (bs "2"))]; JA [] [JS [] (JNullT)]];
                           JS (bs "c") (JStrT (bs "x"))].
Example nonvacuous_json :
  let tg := mkTarget [(Child, nt "a"); (Child, NTAny)] [] in
  map fst (fst (jrun (pm_of tg) (pred_target tg) false false j_init [true; false; true] (jdoc_events jdoc1)))
  = [jkid false (JS [] (JNumT (bs "1"))); jkid false (JO [] [JS (bs "b") (JNumT (bs "2"))]);
     jkid false (JA [] [JS [] JNullT])]
  /\ jwf jdoc1 = true
  /\ map fst (fst (jrun (fun c => match c with [] => true | _ => false end) ptrue false false j_init []
                        (jdoc_events jdoc1))) = [jdoc_tree jdoc1]
  /\ map fst (fst (jrun (fun c => match c with [] => true | _ => false end) ptrue false false j_init []
                        (jdoc_events (JS [] (JNumT (bs "5")))))) = [jdoc_tree (JS [] (JNumT (bs "5")))].
Proof. vm_compute. repeat split. Qed.

(* split_filter_sound is not vacuous: brackets and the other quote inside values, nesting *)
Example split_filter_nonvacuous :
  let tg := mkTarget [(Desc, nt "n"); (Child, NTAny)]
              [PChildEq (nt "x") (bs "a]b"); PChildPred (NTName (bs "p") (bs "y")) (PSelfEq (bs "[x='1']"));
               PAnd (PAttrEq ([], bs "id") (bs "say ""hi""")) (PNot (PTextEq (bs "it's")))] in
  target_ok tg /\
  render_target tg = bs "//n/*[x='a]b'][p:y[.=""[x='1']""]][@id='say ""hi""' and not(text()=""it's"")]".
Proof.
  split; [|vm_compute; reflexivity].
  unfold target_ok. cbn [t_steps t_filters].
  repeat match goal with
         | |- _ /\ _ => split
         | |- Forall _ (_ :: _) => apply Forall_cons
         | |- Forall _ [] => apply Forall_nil
         | |- True => exact I
         | |- _ \/ _ => first [left; reflexivity | right]
         | |- _ <> _ => discriminate
         | |- _ = _ => reflexivity
         | |- _ => progress (unfold nt; cbn [snd fst pexp_ok nt_ok]; unfold qname_ok, name_ok, value_ok)
         end.
Qed.

(* xreach is inhabited beyond the initial state: after <r><n> with target //n a candidate is open *)
Example xreach_nonvacuous :
  let tg := mkTarget [(Desc, nt "n")] [] in
  exists st, xreach (pm_of tg) (pred_target tg) false st /\ s_stream st = SOpen 3.
Proof.
  intro tg.
  eexists. split.
  - eapply reach_cont; [eapply reach_cont; [apply reach_init| | |]| | |].
    + discriminate.
    + shelve.
    + instantiate (2 := XStart (bs "r") (FXml [] []) []). vm_compute. reflexivity.
    + discriminate.
    + shelve.
    + instantiate (2 := XStart (bs "n") (FXml [] []) []). vm_compute. reflexivity.
    Unshelve. all: discriminate.
  - reflexivity.
Qed.

(* the attribute loop with empty values in first, middle and last position; two readers interleaved *)
Example attribute_loop_nonvacuous :
  let attrs := [(bs "a", FXml [] [], []); (bs "b", FXml (bs "p") (bs "urn:p"), bs "1"); (bs "c", FXml [] [], [])] in
  xstep (fun _ => false) ptrue false false x_init (XStart (bs "r") (FXml [] []) attrs) =
  RCont (mkS [mkF ElementNode (bs "r") (FXml [] [])
                [T AttributeNode (bs "a") (FXml [] []) [T TextNode [] (FXml [] []) []];
                 T AttributeNode (bs "b") (FXml (bs "p") (bs "urn:p")) [T TextNode (bs "1") (FXml [] []) []];
                 T AttributeNode (bs "c") (FXml [] []) [T TextNode [] (FXml [] []) []]];
              mkF DocumentNode [] (FXml [] []) []] None SNone).
Proof. vm_compute. reflexivity. Qed.

Example interleaved_nonvacuous :
  let tg := mkTarget [(Desc, nt "n")] [] in
  let a := xdoc_events [E "r" [E "n" [XT (bs "1")]; E "n" [XT (bs "2")]]] in
  let b := xdoc_events [E "q" [E "n" []]] in
  let sys := sys_run (pm_of tg) (pred_target tg) false [0; 1; 1; 0; 0; 1; 0; 1; 0; 0; 1; 0; 0; 0; 1; 0]
               [xreader_init [true; false] a; xreader_init [] b] in
  map (fun rd => (List.length (xr_out rd), xr_status rd)) sys = [(2, Ended FEOF); (1, Ended FEOF)].
Proof. vm_compute. reflexivity. Qed.

(* a union: /lib/book | /lib/magazine over mixed siblings, in document order *)
Example union_nonvacuous :
  let tg := mkTarget [(Child, nt "lib"); (Child, nt "magazine")] [] in
  let alts := [[(Child, nt "lib"); (Child, nt "book")]] in
  let doc := [E "lib" [E "book" [XT (bs "1")]; E "dvd" []; E "magazine" [XT (bs "2")]; E "book" [XT (bs "3")]]] in
  map fst (fst (xrun (pm_union alts tg) ptrue false false x_init [] (xdoc_events doc)))
  = [xtree (E "book" [XT (bs "1")]); xtree (E "magazine" [XT (bs "2")]); xtree (E "book" [XT (bs "3")])]
  /\ pm_union alts tg [] = false
  /\ (render_alts alts ++ render_target tg)%list = bs "/lib/book | /lib/magazine".
Proof. vm_compute. repeat split. Qed.
