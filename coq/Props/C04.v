(* C04 Streaming target selection equals whole-document selection (XML, JSON).
   Statements only; proofs in Proofs/Stream*.v. *)
From Coq Require Import List NArith Bool.
Import ListNotations.
From OV Require Import Base.Bytes Base.Tree Model.Stream Proofs.Stream.

Theorem release_then_prologue : forall st st1,
  release st = Some st1 -> read_prologue st1 = read_prologue st.
Proof. exact release_then_prologue. Qed.
