(* C04 Streaming target selection equals whole-document selection (XML, JSON).
   Statements only; proofs in Proofs/Stream*.v.

   Vocabulary (Model/Stream.v): a target of the property's class is a predicate [pm] on the chain
   of element names from the root to a node (covers absolute paths, "//" and wildcards at once)
   plus a predicate [pred] on the node's own subtree (the final-step predicates);
   [whole_doc_selection pm pred doc] = the nodes of [doc] on the path, outermost only, in document
   order, kept iff they satisfy [pred], each with its complete subtree.  [xrun]/[jrun] are the
   readers' Read-to-EOF loops over the decoder's token stream; [rel] says after which deliveries
   the caller calls Release. *)
From Coq Require Import List NArith Bool.
Import ListNotations.
From OV Require Import Base.Bytes Base.Tree Model.Stream Proofs.Stream Proofs.StreamXml Proofs.StreamJson.

(* For every XML document, every target of the class and every Release pattern: the reader ends
   with EOF and the delivered snapshots are exactly the whole-document selection (same nodes,
   same order, complete subtrees, none twice, none skipped).  [has_filter] is the reader's
   "closing check installed" flag; without it the target has no final predicate.
   Forced hypothesis [pm [] = false]: the path part must not select the document node itself
   (targets "." and "/": the XML reader then delivers the top-level ELEMENT, see the report). *)
Theorem xml_stream_eq_select :
  forall (pm : list name -> bool) (pred : tree -> bool) (has_filter : bool),
    (has_filter = false -> forall t, pred t = true) ->
    pm [] = false ->
    forall content rel,
      exists L, xrun pm pred has_filter false x_init rel (xdoc_events content) = (L, FEOF) /\
                map fst L = whole_doc_selection pm pred (xdoc_tree content).
Proof. exact xml_stream_eq_select_proof. Qed.

(* The same for JSON, for every JSON value (scalars, arrays, objects at any level, also as the
   whole document) and every target of the class, including targets that select the document
   node itself ("." - the whole document is then the one record). *)
Theorem json_stream_eq_select :
  forall (pm : list name -> bool) (pred : tree -> bool) (has_filter : bool),
    (has_filter = false -> forall t, pred t = true) ->
    forall j rel, jwf j = true ->
      exists L, jrun pm pred has_filter false j_init rel (jdoc_events j) = (L, FEOF) /\
                map fst L = whole_doc_selection pm pred (jdoc_tree j).
Proof. exact json_stream_eq_select_proof. Qed.

(* "outermost matches of the path part, then the final predicates" is the recursion that stops
   at the first node on the path. *)
Theorem whole_doc_selection_is_spec : forall pm pred doc,
  whole_doc_selection pm pred doc = spec pm pred [] doc.
Proof. exact whole_doc_selection_is_spec. Qed.

Theorem release_then_prologue : forall st st1,
  release st = Some st1 -> read_prologue st1 = read_prologue st.
Proof. exact release_then_prologue. Qed.
