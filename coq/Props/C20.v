(* C20 JavaScript calls are isolated from each other and map values faithfully.
   Statements only; proofs in Proofs/Js.v and Proofs/JsRefute.v.  Model: Model/Js.v (javascript.go
   at /repo 12a3496).  [r] is any goja-like fresh global object satisfying rt_wf (checked on the
   real runtime's table by every correspondence case); scripts are arbitrary functions of the
   globals they can see; [compile] is any function of the script text. *)
From Coq Require Import List NArith Bool.
From Coq Require String. Import String.StringSyntax.
From stdpp Require Import gmap.
From OV Require Import Base.Bytes Base.Cases Model.Js Proofs.Js Proofs.JsRefute.
Import ListNotations.
Local Delimit Scope string_scope with string.

(* execProgram hands the runtime back exactly as new - for every arg naming (built-ins, inherited
   names, non-configurable globals), whether the script returns or throws (the script's result is
   arbitrary), and when defining an arg fails half-way. *)
Theorem js_vm_restored : forall r ord1 ord2 s,
  rt_wf r -> same_keys ord1 ord2 ->
  fst (run_on r (fresh_vm r) ord1 ord2 s) = fresh_vm r.
Proof. exact run_on_restores. Qed.

(* For ALL call sequences, pool choices and pool drops: call k yields what it yields on a runtime
   nobody has used; the invariant (every pooled runtime equals a new one) is kept.
   Scripts are of type [script] = functions of the visible globals: scripts that create global
   bindings are outside by type (see js_global_writers_refuted below for why they must be). *)
Theorem js_isolation : forall r, rt_wf r -> forall es pool,
  pool_ok r pool -> Forall vcall_wf (vcalls es) ->
  snd (vrun r pool es) = map (alone r) (vcalls es) /\ pool_ok r (fst (vrun r pool es)).
Proof. exact js_isolation. Qed.

(* ... and for all interleavings of whole calls of any number of goroutines (a runtime is owned
   exclusively between Get and Put; Get and Put are atomic). *)
Theorem js_isolation_interleaved : forall r, rt_wf r -> forall css s pool,
  pool_ok r pool -> Forall (Forall vcall_wf) css ->
  Forall2 (fun t cs =>
     (exists rest, map (alone r) cs = th_out t ++ rest) /\
     (th_todo t = [] -> th_held t = None -> th_out t = map (alone r) cs))
    (snd (run_sched r pool (map th_init css) s)) css.
Proof. exact js_isolation_interleaved. Qed.

(* what "alone" is: the script applied to its args laid over the built-in globals - nothing else,
   and independent of Go's map iteration order (for args that can be defined at all). *)
Theorem js_args_visible : forall r c,
  args_plain (fresh_vm r) (vc_args c) ->
  alone r c = RRun (vc_script c ((list_to_map (vc_args c) : gmap N jsval) ∪ view r (fresh_vm r))).
Proof. exact js_args_visible. Qed.

Theorem js_args_order_irrelevant : forall r c c',
  args_plain (fresh_vm r) (vc_args c) -> Permutation (vc_args c) (vc_args c') ->
  vc_script c = vc_script c' -> alone r c = alone r c'.
Proof. exact js_args_order_irrelevant. Qed.

(* exactly NaN, +-Infinity, null, undefined and a thrown exception are errors; everything else is
   exported: booleans, numbers, strings as themselves, arrays and objects element-wise *)
Theorem classify_spec : forall x,
  match x with
  | Throw _ => classify x = OErr EkThrow
  | Normal v =>
      if is_error_value v then
        exists k, classify x = OErr k /\
          match v with
          | JNum NNaN => k = EkNaN
          | JNum _ => k = EkInf
          | JNull => k = EkNull
          | _ => k = EkUndef
          end
      else classify x = OVal (export v)
  end.
Proof. exact classify_spec. Qed.

Theorem classify_error_iff : forall x,
  (exists k, classify x = OErr k) <->
  match x with Throw _ => True | Normal v => is_error_value v = true end.
Proof. exact classify_error_iff. Qed.

Theorem export_shape :
  (forall b, export (JBool b) = JsBool b) /\
  (forall n, export (JNum n) = JsNum n) /\
  (forall s, export (JStr s) = JsStr s) /\
  (forall l, export (JArr l) = JsArr (map export l)) /\
  (forall kvs, export (JObj kvs) = JsObj (map (fun '(k, x) => (k, export x)) kvs)).
Proof. exact export_shape. Qed.

(* the program cache is invisible at any capacity and after any eviction history *)
Theorem prog_cache_pure : forall compile st js,
  prog_ok compile st ->
  fst (get_program compile st js) = compile js /\ prog_ok compile (snd (get_program compile st js)) /\
  st_pool (snd (get_program compile st js)) = st_pool st /\
  st_node (snd (get_program compile st js)) = st_node st /\
  st_nocache (snd (get_program compile st js)) = st_nocache st.
Proof. exact prog_cache_pure. Qed.

(* _node is the JSON of the node's CURRENT content - under the named guard
   content_stable_per_id (F6: the full statement without the guard is false, see below) *)
Theorem node_json_fresh : forall r compile all, rt_wf r -> content_stable_per_id all ->
  forall es st,
  (forall c sc, In (c, sc) (calls_of es) -> In c all /\ call_wf c sc) ->
  st_ok r compile all st ->
  Forall2 (fun cs o => forall j, snd o = Some j -> exists id, c_node (fst cs) = Some (id, j))
          (calls_of es) (snd (run r compile st es)).
Proof. exact node_json_fresh. Qed.

(* F6 (known finding): a node ID whose content changed returns the stale cache entry *)
Theorem node_json_refuted :
  exists r compile es c sc now id o,
    rt_wf r /\ (forall c sc, In (c, sc) (calls_of es) -> call_wf c sc) /\
    nth_error (calls_of es) 1 = Some (c, sc) /\ c_node c = Some (id, now) /\
    nth_error (snd (run r compile (st_init false 65536 65536) es)) 1 = Some o /\
    o <> call_spec r compile c sc /\ exists stale, snd o = Some stale /\ stale <> now.
Proof. exact node_json_refuted. Qed.

(* The whole property: every call of every history (any cache capacities and contents, any pool
   choice, pool drops in between) yields what it yields as a function of its script, its args
   and the node's present JSON - under the same guard. *)
Theorem js_calls_as_alone : forall r compile all, rt_wf r -> content_stable_per_id all ->
  forall es st,
  (forall c sc, In (c, sc) (calls_of es) -> In c all /\ call_wf c sc) ->
  st_ok r compile all st ->
  snd (run r compile st es) = map (fun cs => call_spec r compile (fst cs) (snd cs)) (calls_of es).
Proof. exact js_calls_as_alone. Qed.

(* ... and that function is the same call with caching and pooling switched off *)
Theorem call_spec_is_uncached : forall r compile c sc pc nc,
  snd (js_call r compile (st_init true pc nc) c sc) = call_spec r compile c sc.
Proof. exact call_spec_is_uncached. Qed.

(* _node always is the current node: javascript.go puts the node's JSON into the arg map after the
   caller's args, so a caller arg literally named _node (any position, any value) is overridden;
   every other arg is untouched *)
Theorem node_arg_wins : forall (a : gmap N jsval) (j : bytes),
  node_override a j !! NODE = Some (JStr j) /\ forall k, k <> NODE -> node_override a j !! k = a !! k.
Proof. exact node_arg_wins. Qed.

(* OUTSIDE the property, by the type [script]: scripts that create global bindings (`t = 0`,
   `var n = ...`, function declarations - the documentation's own examples do).  execProgram
   wipes the arg names only; with the generalised script type [gscript] (result + bindings
   created) the isolation statement is FALSE: a later call with no args sees the earlier call's
   binding on the pooled runtime.  All theorems above are about [script]; run_on_g coincides with
   run_on on that class. *)
Theorem js_global_writers_refuted :
  exists r (s1 : gscript) (s2 : script),
    rt_wf r /\
    fst (run_on_g r (fresh_vm r) [] [] s1) <> fresh_vm r /\
    snd (run_on r (fst (run_on_g r (fresh_vm r) [] [] s1)) [] [] s2)
      <> snd (run_on r (fresh_vm r) [] [] s2).
Proof. exact js_global_writers_refuted. Qed.

Theorem run_on_g_pure_script : forall r m ord1 ord2 (s : script),
  run_on_g r m ord1 ord2 (fun g => (s g, [])) = run_on r m ord1 ord2 s.
Proof. exact run_on_g_pure_script. Qed.

(* ---- non-vacuity -------------------------------------------------------------------------------- *)
(* a runtime table meeting rt_wf; a history in which a call with args {20,21}, a call that
   throws with arg {10} (a built-in's name), and a call with no args that reads 20, 21 and 10
   share ONE pooled runtime (ChPool 0), with caches of capacity one *)
Definition nv_compile : N -> option script := compile_of
  [(1%N, Some (SArr [SVar 20%N; SVar 21%N]));
   (2%N, Some (SThrow (SVar 10%N)));
   (3%N, Some (SArr [SVarOr 20%N (SLit (JStr (hx "6e6f6e65"%string))); STypeof 21%N; STypeof 10%N]))].
Definition nv_events : list event :=
  [EvCall (mkCall None 1 [(NmStr 20%N, JNum (NFin 1)); (NmStr 21%N, JBool true)] false) (mkSched ChFresh [21%N; 20%N] [20%N; 21%N]);
   EvCall (mkCall None 2 [(NmStr 10%N, JStr (hx "78"%string))] false) (mkSched (ChPool 0) [10%N] [10%N]);
   EvCall (mkCall None 3 [] false) (mkSched (ChPool 0) [] [])].

Example c20_nonvacuous :
  rt_wf r0 /\
  (forall c sc, In (c, sc) (calls_of nv_events) -> In c (map fst (calls_of nv_events)) /\ call_wf c sc) /\
  content_stable_per_id (map fst (calls_of nv_events)) /\
  st_ok r0 nv_compile (map fst (calls_of nv_events)) (st_init false 1 1) /\
  map fst (snd (run r0 nv_compile (st_init false 1 1) nv_events)) =
    [OVal (JsArr [JsNum (NFin 1); JsBool true]); OErr EkThrow;
     OVal (JsArr [JsStr (hx "6e6f6e65"%string); JsStr (hx "756e646566696e6564"%string); JsStr (hx "6f626a656374"%string)])].
Proof.
  split; [exact r0_wf|]. split.
  - intros c sc H. simpl in H. split.
    + destruct H as [H|[H|[H|[]]]]; inversion H; subst; simpl; auto.
    + destruct H as [H|[H|[H|[]]]]; inversion H; subst; apply call_wf_b_sound; vm_compute; reflexivity.
  - split.
    + intros c1 c2 id b1 b2 H1 H2 E1 E2. simpl in H1.
      destruct H1 as [H1|[H1|[H1|[]]]]; subst c1; discriminate.
    + split; [apply st_init_ok|]. vm_compute. reflexivity.
Qed.

(* a context call that also passes _node = "x": the script sees the node's JSON *)
Example c20_node_arg_wins :
  map fst (snd (run r0 (compile_of [(1%N, Some (SVar NODE))]) (st_init false 1 1)
    [EvCall (mkCall (Some (7%N, hx "7b7d"%string)) 1 [(NmStr NODE, JStr (hx "78"%string))] false)
            (mkSched ChFresh [NODE] [NODE])])) = [OVal (JsStr (hx "7b7d"%string))].
Proof. vm_compute. reflexivity. Qed.

Example c20_f6_guard_fails : ~ content_stable_per_id (map fst (calls_of f6_events)).
Proof. exact f6_not_stable. Qed.
