(* C16 Input reader failures end the transform with a fatal error.  Statements only. *)
From Coq Require Import List NArith Bool.
Import ListNotations.
From OV Require Import Base.ErrClass Model.Latch Gen.Continuable Proofs.Latch Model.Fault Proofs.Fault.

(* For each of the seven formats, every class the reader wraps an input failure into is
   non-continuable for the built-in ingester (tables extracted from the source each run). *)
Theorem fault_classes_terminal : forall fmt c,
  fmt < length all_formats -> In c (fault_classes fmt) -> transform_terminal fmt c = true.
Proof. exact fault_classes_terminal. Qed.

(* The pre-F10 classification of the old csv reader violated this. *)
Theorem csv_fault_old_refuted :
  exists c, In c (fault_classes_pre_f10 0) /\ transform_terminal 0 c = false.
Proof. exact csv_fault_old_refuted. Qed.

(* Any FormatReader (state-dependent IsContinuableError included): a non-continuable reader
   error that is not ErrTransformFailed makes the Read that meets it terminal with that very
   error value ... *)
Theorem reader_noncont_error_terminal : forall R rd_step rd_cont parse marshal g r' n e,
  rd_step (i_rd g) = (r', mkRd n (Some e)) ->
  is_failed e = false -> rd_cont r' e = false ->
  is_terminal (snd (do_read (istate R) (ing_read R rd_step parse marshal) (ing_is_cont R rd_cont) g)) e.
Proof. exact reader_noncont_error_terminal. Qed.

(* ... and every later call of any history returns it again without touching the reader. *)
Theorem reader_fault_sticky : forall R rd_step rd_cont parse marshal ts g r' n e ops,
  (lastErr ts = None \/ exists e0, lastErr ts = Some e0 /\ is_failed e0 = true) ->
  rd_step (i_rd g) = (r', mkRd n (Some e)) ->
  is_failed e = false -> rd_cont r' e = false ->
  let st1 := fst (read (istate R) (ing_read R rd_step parse marshal) (ing_is_cont R rd_cont) (ts, g)) in
  run (istate R) (ing_read R rd_step parse marshal) (ing_is_cont R rd_cont) (ts, g) (OpRead :: ops) =
    (st1, OutRead None (Some e) :: map (sticky_out e) ops).
Proof. exact reader_fault_sticky. Qed.
