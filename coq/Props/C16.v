(* C16 Input reader failures end the transform with a fatal error.  Statements only.

   Full statement: if the input io.Reader returns a non-EOF error (persistently, or once and then
   another one persistently) after p bytes, the Transform returns a non-ErrTransformFailed error
   within a bounded number of Reads (all results the delivered bytes make up, plus one), that
   error is then returned by every later call, and all results before it except possibly the last
   equal the fault-free run's.
   Proved: (1) classification -- every class a built-in reader wraps an input failure into is
   non-continuable (tables extracted from the source), for any FormatReader such an error makes
   the Read that meets it terminal and sticky; (2) byte level -- through StripBOM and the line
   reader (both fixed-length formats) a source fault is never swallowed: the layer ends with a
   fault value, never io.EOF, after exactly the lines of the fault-free run over the delivered
   bytes; NewTransform's probe fails with the fault when it meets it first.
   Partial: the bound in Reads for whole formats and "except possibly the last" against the
   untruncated input are checked on the implementation by the c16 oracle only; scanner, csv, json
   and xml layers: model + correspondence / trusted error transparency. *)
From Coq Require Import List NArith Bool Arith.
From Coq.Strings Require Import Byte.
Import ListNotations.
From OV Require Import Base.Bytes Base.ErrClass Model.Latch Gen.Continuable Proofs.Latch Model.Chunk Model.Fault
  Proofs.Chunk Proofs.ChunkTop Proofs.Fault Proofs.FaultLines.

(* For each of the seven formats, every class the reader wraps an input failure into is
   non-continuable for the built-in ingester (tables extracted from the source each run). *)
Theorem fault_classes_terminal : forall fmt c,
  fmt < length all_formats -> In c (fault_classes fmt) -> transform_terminal fmt c = true.
Proof. exact fault_classes_terminal. Qed.

(* The pre-F10 classification of the old csv reader violated this. *)
Theorem csv_fault_old_refuted :
  exists c, In c (fault_classes_pre_f10 0) /\ transform_terminal 0 c = false.
Proof. exact csv_fault_old_refuted. Qed.

(* Any FormatReader (state-dependent IsContinuableError included, as the old csv reader's
   comparison with r.readErr): a non-continuable reader error that is not ErrTransformFailed makes
   the Read that meets it terminal with that very error value ... *)
Theorem reader_noncont_error_terminal : forall R rd_step rd_cont parse marshal g r' n e,
  rd_step (i_rd g) = (r', mkRd n (Some e)) ->
  is_failed e = false -> rd_cont r' e = false ->
  is_terminal (snd (do_read (istate R) (ing_read R rd_step parse marshal) (ing_is_cont R rd_cont) g)) e.
Proof. exact reader_noncont_error_terminal. Qed.

(* ... and every later call of any history returns it again without touching the reader. *)
Theorem reader_fault_sticky : forall R rd_step rd_cont parse marshal ts g r' n e ops,
  (lastErr ts = None \/ exists e0, lastErr ts = Some e0 /\ is_failed e0 = true) ->
  rd_step (i_rd g) = (r', mkRd n (Some e)) ->
  is_failed e = false -> rd_cont r' e = false ->
  let st1 := fst (read (istate R) (ing_read R rd_step parse marshal) (ing_is_cont R rd_cont) (ts, g)) in
  run (istate R) (ing_read R rd_step parse marshal) (ing_is_cont R rd_cont) (ts, g) (OpRead :: ops) =
    (st1, OutRead None (Some e) :: map (sticky_out e) ops).
Proof. exact reader_fault_sticky. Qed.

(* Byte level.  The line loop over the same bytes with any two tails delivers the same lines, and
   the error that ends it is the tail's first or second error. *)
Theorem lines_tail_independent : forall N fuel data T T' ls e,
  a_read_lines N fuel (data, T) = Ok (ls, e) ->
  err_of e T /\ exists e', a_read_lines N fuel (data, T') = Ok (ls, e').
Proof. exact a_read_lines_tail. Qed.

(* A failing source under the line reader, any chunking: ends with a fault value (not io.EOF),
   after exactly the lines of the fault-free source with the same bytes. *)
Theorem lines_fault_surfaces : forall N gas fuel cs wl t ls e,
  4 <= N -> runs_ok cs = true -> weight cs + 1 < gas -> is_fault_tail t ->
  a_read_lines N fuel (concat cs, t) = Ok (ls, e) ->
  read_lines source io_read N gas fuel b_init (mkSrc cs wl t) = Ok (ls, e) /\
  (exists f, e = IoFault f) /\
  read_lines source io_read N gas fuel b_init (mkSrc cs wl TEof) = Ok (ls, IoEOF).
Proof. exact lines_fault_surfaces. Qed.

(* NewTransform's StripBOM probe followed by the line reader over a failing source: the probe
   fails with the fault, or the line reader ends with it. *)
Theorem stack_fault_surfaces : forall N gas fuel cs wl t res,
  4 <= N -> runs_ok cs = true -> weight cs + 1 < gas -> is_fault_tail t ->
  a_bom_lines N fuel (concat cs, t) = Ok res ->
  bom_lines N gas fuel (mkSrc cs wl t) = Ok res /\
  exists f, match res with inl e => e = IoFault f | inr (_, e) => e = IoFault f end.
Proof. exact stack_fault_surfaces. Qed.

(* Non-vacuity: "ab\ncd" then fault 7 once, fault 9 forever, cut inside the first line; the
   partial last line "cd" is handed out (swallowing fault 7) and the next call reports fault 9. *)
Example c16_nonvacuous :
  let cs := [[x61]; []; [x62; x0a; x63]; [x64]] in
  runs_ok cs = true /\ is_fault_tail (TOnce 7 9) /\
  a_bom_lines 8 10 (concat cs, TOnce 7 9) = Ok (inr ([[x61; x62]; [x63; x64]], IoFault 9)) /\
  bom_lines 8 60 10 (mkSrc cs false (TOnce 7 9)) = Ok (inr ([[x61; x62]; [x63; x64]], IoFault 9)) /\
  bom_lines 8 60 10 (mkSrc [] false (TFault 7)) = Ok (inl (IoFault 7)).
Proof. vm_compute. repeat split; try reflexivity. discriminate. Qed.
