(* C16 Input reader failures end the transform with a fatal error.  Statements only.

   Full statement: if the input io.Reader returns a non-EOF error (persistently, or once and then
   another one persistently) after p bytes, the Transform returns a non-ErrTransformFailed error
   within a bounded number of Reads (all results the delivered bytes make up, plus one), that
   error is then returned by every later call, and all results before it except possibly the last
   equal the fault-free run's.
   Proved: (1) classification -- every class a built-in reader wraps an input failure into is
   non-continuable (tables extracted from the source), for any FormatReader such an error makes
   the Read that meets it terminal and sticky; (2) byte level -- through StripBOM and the line
   reader (both fixed-length formats) a source fault is never swallowed: the layer ends with a
   fault value, never io.EOF, after exactly the lines of the fault-free run over the delivered
   bytes; NewTransform's probe fails with the fault when it meets it first.
   (3) fault_prefix_agrees against the UNTRUNCATED input, for the line reader and for the delimiter
   scanner: everything delivered before the fault surfaces, except possibly the last line (for the
   EDI scanner: nothing excepted), is what the fault-free run over the whole input delivers;
   (4) per-layer bounds: once the fault sits in a layer's buffer, at most one more line / token per
   buffered byte (<= buffer size) comes before the fault is reported.
   Partial: the bound in Reads for whole formats is checked on the implementation by the c16
   oracle (fatal result no later than one Read after the terminal Read of the run over the
   delivered bytes); csv, json and xml layers: trusted error transparency of the stdlib decoders. *)
From Coq Require Import List NArith Bool Arith.
From Coq.Strings Require Import Byte.
Import ListNotations.
From OV Require Import Base.Bytes Base.ErrClass Model.Latch Gen.Continuable Proofs.Latch Model.Chunk Model.Fault
  Proofs.Chunk Proofs.ChunkLines Proofs.ChunkTop Proofs.ChunkScan Proofs.Fault Proofs.FaultLines Proofs.FaultPrefix Gen.FaultWrap Proofs.FaultReaders.

(* For each of the seven formats, every class the reader wraps an input failure into is
   non-continuable for the built-in ingester (tables extracted from the source each run). *)
Theorem fault_classes_terminal : forall fmt c,
  fmt < length all_formats -> In c (fault_classes fmt) -> transform_terminal fmt c = true.
Proof. exact fault_classes_terminal. Qed.

(* The pre-F10 classification of the old csv reader violated this. *)
Theorem csv_fault_old_refuted :
  exists c, In c (fault_classes_pre_f10 0) /\ transform_terminal 0 c = false.
Proof. exact csv_fault_old_refuted. Qed.

(* Any FormatReader (state-dependent IsContinuableError included, as the old csv reader's
   comparison with r.readErr): a non-continuable reader error that is not ErrTransformFailed makes
   the Read that meets it terminal with that very error value ... *)
Theorem reader_noncont_error_terminal : forall R rd_step rd_cont parse marshal g r' n e,
  rd_step (i_rd g) = (r', mkRd n (Some e)) ->
  is_failed e = false -> rd_cont r' e = false ->
  is_terminal (snd (do_read (istate R) (ing_read R rd_step parse marshal) (ing_is_cont R rd_cont) g)) e.
Proof. exact reader_noncont_error_terminal. Qed.

(* ... and every later call of any history returns it again without touching the reader. *)
Theorem reader_fault_sticky : forall R rd_step rd_cont parse marshal ts g r' n e ops,
  (lastErr ts = None \/ exists e0, lastErr ts = Some e0 /\ is_failed e0 = true) ->
  rd_step (i_rd g) = (r', mkRd n (Some e)) ->
  is_failed e = false -> rd_cont r' e = false ->
  let st1 := fst (read (istate R) (ing_read R rd_step parse marshal) (ing_is_cont R rd_cont) (ts, g)) in
  run (istate R) (ing_read R rd_step parse marshal) (ing_is_cont R rd_cont) (ts, g) (OpRead :: ops) =
    (st1, OutRead None (Some e) :: map (sticky_out e) ops).
Proof. exact reader_fault_sticky. Qed.

(* Byte level.  The line loop over the same bytes with any two tails delivers the same lines, and
   the error that ends it is the tail's first or second error. *)
Theorem lines_tail_independent : forall N fuel data T T' ls e,
  a_read_lines N fuel (data, T) = Ok (ls, e) ->
  err_of e T /\ exists e', a_read_lines N fuel (data, T') = Ok (ls, e').
Proof. exact a_read_lines_tail. Qed.

(* A failing source under the line reader, any chunking: ends with a fault value (not io.EOF),
   after exactly the lines of the fault-free source with the same bytes. *)
Theorem lines_fault_surfaces : forall N gas fuel cs wl t ls e,
  4 <= N -> runs_ok cs = true -> weight cs + 1 < gas -> is_fault_tail t ->
  a_read_lines N fuel (concat cs, t) = Ok (ls, e) ->
  read_lines source io_read N gas fuel b_init (mkSrc cs wl t) = Ok (ls, e) /\
  (exists f, e = IoFault f) /\
  read_lines source io_read N gas fuel b_init (mkSrc cs wl TEof) = Ok (ls, IoEOF).
Proof. exact lines_fault_surfaces. Qed.

(* NewTransform's StripBOM probe followed by the line reader over a failing source: the probe
   fails with the fault, or the line reader ends with it. *)
Theorem stack_fault_surfaces : forall N gas fuel cs wl t res,
  4 <= N -> runs_ok cs = true -> weight cs + 1 < gas -> is_fault_tail t ->
  a_bom_lines N fuel (concat cs, t) = Ok res ->
  bom_lines N gas fuel (mkSrc cs wl t) = Ok res /\
  exists f, match res with inl e => e = IoFault f | inr (_, e) => e = IoFault f end.
Proof. exact stack_fault_surfaces. Qed.

(* fault_prefix_agrees, line reader, on streams: p delivered then any tail, against p ++ q. *)
Theorem lines_fault_prefix_agrees : forall N fuel p q t t' lsA eA lsB eB,
  a_read_lines N fuel (p, t) = Ok (lsA, eA) ->
  a_read_lines N fuel (p ++ q, t') = Ok (lsB, eB) ->
  exists rest, lsB = removelast lsA ++ rest.
Proof. exact lines_fault_prefix_agrees. Qed.

(* ... and on chunk sources, any chunkings of both. *)
Theorem lines_fault_prefix_agrees_src : forall N gas fuel csA csB wlA wlB t q lsA eA lsB eB,
  4 <= N -> runs_ok csA = true -> runs_ok csB = true ->
  weight csA + 1 < gas -> weight csB + 1 < gas ->
  concat csB = concat csA ++ q ->
  a_read_lines N fuel (concat csA, t) = Ok (lsA, eA) ->
  a_read_lines N fuel (concat csB, TEof) = Ok (lsB, eB) ->
  read_lines source io_read N gas fuel b_init (mkSrc csA wlA t) = Ok (lsA, eA) /\
  read_lines source io_read N gas fuel b_init (mkSrc csB wlB TEof) = Ok (lsB, eB) /\
  exists rest, lsB = removelast lsA ++ rest.
Proof. exact lines_fault_prefix_agrees_src. Qed.

(* fault_prefix_agrees, delimiter scanner (any prefix-stable delimiter search). *)
Theorem scan_fault_prefix_agrees : forall find dlen incl eofd, 1 <= dlen ->
  (forall d i, find d = Some i -> i + dlen <= length d) ->
  (forall d r i, find d = Some i -> find (d ++ r) = Some i) ->
  forall fuel p q t t' tsA eA tsB eB,
  a_scan_all find dlen incl eofd fuel p t = Ok (tsA, eA) ->
  a_scan_all find dlen incl eofd fuel (p ++ q) t' = Ok (tsB, eB) ->
  exists rest, tsB = (if eofd then removelast tsA else tsA) ++ rest.
Proof. exact scan_fault_prefix_agrees. Qed.

Theorem scan_fault_prefix_agrees_src : forall delim esc buflen gas fuel csA csB wlA wlB t q tsA eA tsB eB,
  full_rune delim = true -> buflen <= MaxScanTokenSize ->
  runs_ok csA = true -> runs_ok csB = true ->
  weight csA + 1 < gas -> weight csB + 1 < gas ->
  concat csB = concat csA ++ q ->
  a_scan_all (byte_index_with_esc delim esc) (length delim) true false fuel (concat csA) t = Ok (tsA, eA) ->
  a_scan_all (byte_index_with_esc delim esc) (length delim) true false fuel (concat csB) TEof = Ok (tsB, eB) ->
  scan_all source io_read (byte_index_with_esc delim esc) (length delim) true false gas fuel
           (mkScan 0 [] buflen None) (mkSrc csA wlA t) = Ok (tsA, eA) /\
  scan_all source io_read (byte_index_with_esc delim esc) (length delim) true false gas fuel
           (mkScan 0 [] buflen None) (mkSrc csB wlB TEof) = Ok (tsB, eB) /\
  exists rest, tsB = tsA ++ rest.
Proof. exact scan_fault_prefix_agrees_src. Qed.

(* Bounds.  Line reader over any well-behaved reader: with the fault pending in the bufio.Reader,
   at most one more line per buffered byte (<= N), then one of the tail's errors. *)
Theorem lines_fault_bound : forall St sread Rep wt lead, reader_ok St sread Rep wt lead ->
  forall N, 4 <= N -> forall gas fuel b x data t e ls e',
  BR St Rep N (b, x) (data, t) -> b_err b = Some e -> wt x + 1 < gas ->
  a_read_lines N fuel (data, t) = Ok (ls, e') ->
  read_lines St sread N gas fuel b x = Ok (ls, e') /\
  length ls <= length (b_data b) /\ length (b_data b) <= N /\ err_of e' t.
Proof. exact lines_fault_bound. Qed.

(* Scanner: with the fault seen, at most one more token per buffered byte (<= 64 KiB), then Err(). *)
Theorem scan_fault_bound : forall find dlen incl eofd, 1 <= dlen ->
  (forall d i, find d = Some i -> i + dlen <= length d) ->
  (forall d r i, find d = Some i -> find (d ++ r) = Some i) ->
  forall St sread Rep wt lead, reader_ok St sread Rep wt lead ->
  forall gas fuel sc x data t e ts e',
  SR St Rep (sc, x) data t -> s_err sc = Some e -> sm St wt (sc, x) < gas ->
  a_scan_all find dlen incl eofd fuel data t = Ok (ts, e') ->
  scan_all St sread find dlen incl eofd gas fuel sc x = Ok (ts, e') /\
  length ts <= length (s_data sc) /\ length (s_data sc) <= s_buflen sc /\ s_buflen sc <= MaxScanTokenSize.
Proof. exact scan_fault_bound. Qed.

(* Known finding F27 (old fixed-length reader, by_header_footer envelopes): above the line reader
   the fault can be swallowed -- the torn line matches no header and the reader answers io.EOF
   without reading on.  Replayed on the Go code from replays/corpus/C16/F27-hf-torn-header.json. *)
Theorem hf_envelope_fault_refuted :
  exists p f ls,
    a_read_lines 4096 10 (p, TFault f) = Ok (ls, IoFault f) /\
    starts_with BEG (p ++ [x47; x31; x0a]) = true /\
    hf_envelope_start [starts_with BEG] ls (IoFault f) = HfEOF.
Proof. exact hf_envelope_fault_refuted. Qed.

(* Inside the guard (every non-empty line handed out matches a header) it cannot happen. *)
Theorem hf_envelope_start_guarded : forall headers ls e,
  e <> IoEOF ->
  (forall l, In l ls -> l <> [] -> existsb (fun h => h l) headers = true) ->
  hf_envelope_start headers ls e <> HfEOF.
Proof. exact hf_envelope_start_guarded. Qed.

(* ---- format level, over the wrapping sites extracted from the source (Gen/FaultWrap.v) ---------- *)
(* Every site at which one of the seven readers wraps a failure of its input yields a class the
   built-in ingester does not call continuable (both tables regenerated from /repo each run). *)
Theorem fault_wrap_terminal : forall fmt c,
  fmt < length all_formats -> In c (fault_wrap fmt) -> transform_terminal fmt c = true.
Proof. exact fault_wrap_terminal. Qed.

Theorem fault_wrap_in_model : forall fmt c, In c (fault_wrap fmt) -> In c (fault_classes fmt).
Proof. exact fault_wrap_in_model. Qed.

(* fixedlength/reader.go tests the end of the input with err == io.EOF (not errors.Is / isEOF). *)
Theorem fixedlength_eof_tests_are_identity :
  fixedlength_rows_eof_is_identity = true /\ fixedlength_hf_eof_is_identity = true.
Proof. exact fixedlength_eof_tests_are_identity. Qed.

(* Old fixed-length, by_rows, for ALL line sequences, rows, positions inside an envelope: a failing
   line reader ends the Read sequence with the fatal class after at most one node per line. *)
Theorem fl_rows_fault : forall rows e, e <> IoEOF -> forall ls i first,
  exists nodes, fl_rows_run rows i first ls e = nodes ++ [FlRes RcFatal] /\
                Forall is_node nodes /\ length nodes <= length ls.
Proof. exact fl_rows_fault. Qed.

Theorem fl_rows_eof : forall rows ls i first,
  exists nodes c, fl_rows_run rows i first ls IoEOF = nodes ++ [FlRes c] /\ Forall is_node nodes /\
                  (c = RcEOF \/ c = RcFatal).
Proof. exact fl_rows_eof. Qed.

(* Old fixed-length, by_header_footer: known finding F27 as an iff, for all envelope declarations,
   line sequences and states: the failing read becomes the fatal class exactly when every line at
   which an envelope starts matches a header; otherwise it is swallowed (io.EOF). *)
Theorem hf_fault_iff : forall envs e, e <> IoEOF -> forall ls idx cur,
  exists nodes, hf_run envs idx cur ls e =
                  nodes ++ [FlRes (if hf_all_match envs idx (option_map fst cur) ls then RcFatal else RcEOF)] /\
                Forall is_node nodes /\ length nodes <= length ls.
Proof. exact hf_fault_iff. Qed.

(* From the bytes to the Transform for the by_rows reader: fatal within (bytes delivered) + 1 Reads. *)
Theorem fault_is_fatal_fixedlength_rows : forall N gas fuel cs wl t rows ls e,
  4 <= N -> runs_ok cs = true -> weight cs + 1 < gas -> is_fault_tail t ->
  a_read_lines N fuel (concat cs, t) = Ok (ls, e) ->
  read_lines source io_read N gas fuel b_init (mkSrc cs wl t) = Ok (ls, e) /\
  exists nodes, fl_rows_run rows 0 [] ls e = nodes ++ [FlRes RcFatal] /\ Forall is_node nodes /\
                length nodes <= length (concat cs) /\
                transform_terminal 3 RcFatal = true.
Proof. exact fault_is_fatal_fixedlength_rows. Qed.

Example c16_readers_nonvacuous :
  let BEGp := [x42; x45; x47] in let ENDp := [x45; x4e; x44] in
  let envs := [mkHfEnv (prefix_eqb BEGp) (prefix_eqb ENDp) false] in
  fl_rows_run 2 0 [] [[x61]; []; [x62]; [x63]] (IoFault 7) = [FlNode [x61]; FlRes RcFatal] /\
  hf_run envs 0 None [BEGp; [x4c]; ENDp; [x42; x45]] (IoFault 7) = [FlNode BEGp; FlRes RcEOF] /\
  hf_all_match envs 0 None [BEGp; [x4c]; ENDp; [x42; x45]] = false /\
  hf_run envs 0 None [BEGp; [x4c]; ENDp; BEGp ++ [x78]] (IoFault 7) = [FlNode BEGp; FlRes RcFatal].
Proof. vm_compute. repeat split; reflexivity. Qed.

(* Non-vacuity of the prefix theorems: the fault arrives inside the second line / segment. *)
Example c16_prefix_nonvacuous :
  a_read_lines 8 10 ([x61; x62; x0a; x63], TFault 7) = Ok ([[x61; x62]; [x63]], IoFault 7) /\
  a_read_lines 8 10 ([x61; x62; x0a; x63] ++ [x64; x0a; x65; x0a], TEof) = Ok ([[x61; x62]; [x63; x64]; [x65]], IoEOF) /\
  a_scan_all (byte_index_with_esc [x7e] [x3f]) 1 true false 10 [x41; x7e; x42; x3f] (TFault 7) = Ok ([[x41; x7e]], Some (IoFault 7)) /\
  a_scan_all (byte_index_with_esc [x7e] [x3f]) 1 true false 10 ([x41; x7e; x42; x3f] ++ [x7e; x43; x7e]) TEof
    = Ok ([[x41; x7e]; [x42; x3f; x7e; x43; x7e]], None).
Proof. vm_compute. repeat split; reflexivity. Qed.

(* Non-vacuity: "ab\ncd" then fault 7 once, fault 9 forever, cut inside the first line; the
   partial last line "cd" is handed out (swallowing fault 7) and the next call reports fault 9. *)
Example c16_nonvacuous :
  let cs := [[x61]; []; [x62; x0a; x63]; [x64]] in
  runs_ok cs = true /\ is_fault_tail (TOnce 7 9) /\
  a_bom_lines 8 10 (concat cs, TOnce 7 9) = Ok (inr ([[x61; x62]; [x63; x64]], IoFault 9)) /\
  bom_lines 8 60 10 (mkSrc cs false (TOnce 7 9)) = Ok (inr ([[x61; x62]; [x63; x64]], IoFault 9)) /\
  bom_lines 8 60 10 (mkSrc [] false (TFault 7)) = Ok (inl (IoFault 7)).
Proof. vm_compute. repeat split; try reflexivity. discriminate. Qed.
