(* C17 Memory retained while streaming does not grow with records delivered.
   Statements only; proofs in Proofs/StreamRetain.v.

   [retained k] is the second component of the k-th delivery of [xrun]/[jrun]/[flat_run]: the
   number of nodes reachable through parent links from the delivered record at delivery time
   (Model/Stream.v: [retained st] = size of the tree hanging off the reader's root). *)
From Coq Require Import List NArith Bool String.
Import ListNotations.
From OV Require Import Base.Bytes Base.Tree Model.Stream
  Proofs.Stream Proofs.StreamXml Proofs.StreamJson Proofs.StreamRetain Proofs.StreamSys.

(* XML.  Input = ancestors (any depth, with attributes) around ANY sequence of records, where a
   record is an element that is itself on the target path and - the named guard
   [no_separator_text] - nothing but records stands between the ancestors' tags
   ([on_path_record] is False for character data).  Then for every k and every number of records:
   retained k = 1 (document node) + size of the ancestors + size of the k-th delivered record,
   whatever the filter outcomes ([pred] arbitrary: passing and filtered-out targets), and the
   deliveries are exactly the records that pass. *)
Theorem retained_bounded_xml_nosep :
  forall (pm : list name -> bool) (pred : tree -> bool) (has_filter : bool),
    (has_filter = false -> forall t, pred t = true) ->
    forall anc recs rel,
      (forall k, k <= List.length anc -> pm (firstn k (xanc_chain anc)) = false) ->
      Forall (on_path_record pm (xanc_chain anc)) recs ->
      exists L,
        xrun pm pred has_filter false x_init rel (xdoc_events (xnest anc recs)) = (L, FEOF) /\
        Forall (fun d => snd d = 1 + xanc_size anc + tree_size (fst d)) L /\
        map fst L = filter pred (map xtree recs).
Proof. exact retained_bounded_xml_nosep_proof. Qed.

(* The invariant behind it, from ANY reader state between tokens in which no candidate is open
   ([Inv]: nothing in the partial tree is on the path): after each record - delivered and
   released, or rejected - the reader is back in exactly that state (the parent's child list is
   what it was before the record started). *)
Theorem retained_invariant_xml :
  forall (pm : list name -> bool) (pred : tree -> bool) (has_filter : bool),
    (has_filter = false -> forall t, pred t = true) ->
    forall recs f r rel rest,
      Inv pm (f :: r) -> Forall (on_path_record pm (chain_of (f :: r))) recs ->
      exists L,
        xrun pm pred has_filter false (mkS (f :: r) None SNone) rel (flat_map xevents recs ++ rest) =
        prepend L (xrun pm pred has_filter false (mkS (f :: r) None SNone) (skipn (List.length L) rel) rest) /\
        Forall (fun d => snd d = retained (mkS (f :: r) None SNone) + tree_size (fst d)) L /\
        map fst L = filter pred (map xtree recs).
Proof. exact xml_records. Qed.

(* JSON: a top-level array of any records (scalars, objects, arrays), target = its members. *)
Theorem retained_bounded_json :
  forall (pm : list name -> bool) (pred : tree -> bool) (has_filter : bool),
    (has_filter = false -> forall t, pred t = true) ->
    forall recs rel,
      pm [] = false -> Forall (jrecord pm [] false) recs ->
      exists L,
        jrun pm pred has_filter false j_init rel (jdoc_events (JA [] recs)) = (L, FEOF) /\
        Forall (fun d => snd d = 1 + tree_size (fst d)) L /\
        map fst L = filter pred (map (jkid false) recs).
Proof. exact retained_bounded_json_proof. Qed.

(* JSON records that are the VALUES OF AN OBJECT keyed by id, or array elements, at any depth
   below single-member objects: {"k": {"k1": ... {"recs": {"id0": r0, "id1": r1, ...}}}} resp.
   ... {"recs": [r0, r1, ...]}; records of any shape (objects, arrays, scalars), any filter
   outcomes (a rejected property is removed just like a delivered one). *)
Theorem retained_bounded_json_nested :
  forall (pm : list name -> bool) (pred : tree -> bool) (has_filter : bool),
    (has_filter = false -> forall t, pred t = true) ->
    forall key keys arr recs rel,
      (forall k, k <= List.length (key :: keys) -> pm (firstn k (jkeys_chain (key :: keys))) = false) ->
      Forall (jrecord pm (jkeys_chain (key :: keys)) (negb arr)) recs ->
      exists L,
        jrun pm pred has_filter false j_init rel (jdoc_events (JO [] [jnest key keys arr recs])) = (L, FEOF) /\
        Forall (fun d => snd d = 1 + List.length (key :: keys) + tree_size (fst d)) L /\
        map fst L = filter pred (map (jkid (negb arr)) recs).
Proof. exact retained_bounded_json_nested_proof. Qed.

(* ... and from any state between tokens, inside an object ([keyed] = true) or an array. *)
Theorem retained_invariant_json :
  forall (pm : list name -> bool) (pred : tree -> bool) (has_filter : bool),
    (has_filter = false -> forall t, pred t = true) ->
    forall recs keyed f r rel rest,
      mode keyed f -> Inv pm (f :: r) -> Forall (jrecord pm (chain_of (f :: r)) keyed) recs ->
      exists L,
        jrun pm pred has_filter false (mkS (f :: r) None SNone) rel (flat_map (jevents keyed) recs ++ rest) =
        prepend L (jrun pm pred has_filter false (mkS (f :: r) None SNone) (skipn (List.length L) rel) rest) /\
        Forall (fun d => snd d = retained (mkS (f :: r) None SNone) + tree_size (fst d)) L /\
        map fst L = filter pred (map (jkid keyed) recs).
Proof. exact json_records. Qed.

(* Record-at-a-time readers (hierarchy reader of csv2/fixedlength2, EDI, fixed-length, old csv):
   for any sequence of target records and any filter outcomes, every delivery sees the fixed
   part plus exactly one record. *)
Theorem retained_bounded_flat :
  forall (R : Type) (rsize : R -> nat) (standalone : bool) (above : nat) recs kids0 st,
    Forall (is_target_rec R) recs ->
    fl_kids R (flat_prologue R st) = kids0 ->
    Forall (fun d => snd d = if standalone then rsize (fst d)
                             else above + fl_size R rsize kids0 + rsize (fst d))
           (flat_run R rsize standalone above st recs).
Proof. exact retained_bounded_flat_proof. Qed.

(* Targets that have child records or are groups (EDI segment_group, csv2 child_records /
   record_group, fixedlength2 child_envelopes / envelope_group): an instance is one subtree
   [hrec]; the bound is the same with the subtree's size. *)
Theorem retained_bounded_hier :
  forall (standalone : bool) (above : nat) recs kids0 st,
    Forall (is_target_rec hrec) recs ->
    fl_kids hrec (flat_prologue hrec st) = kids0 ->
    Forall (fun d => snd d = if standalone then hsize (fst d)
                             else above + fl_size hrec hsize kids0 + hsize (fst d))
           (flat_run hrec hsize standalone above st recs).
Proof. exact (retained_bounded_flat_proof hrec hsize). Qed.

(* A run of ANY number of consecutive rejected instances (all inside one Read of the caller)
   leaves the reader where it was: what follows runs as if the run had not been there. *)
Theorem rejected_run_leaves_nothing :
  forall (R : Type) (rsize : R -> nat) (above : nat) ys st rest,
    flat_run R rsize false above st (map (fun y => FTarget R y false) ys ++ rest) =
    flat_run R rsize false above (flat_prologue R st) rest.
Proof. exact rejected_run_leaves_nothing_proof. Qed.

(* Whether, and before which reader activity, the caller hands the previous node back through
   Release makes no difference to what a record-at-a-time reader retains: the ingester releases
   the node of every record the reader returned - also of one whose transform failed - and a
   caller that never releases is covered by the reader's own release at the next Read. *)
Theorem flat_run_rel_eq :
  forall (R : Type) (rsize : R -> nat) (standalone : bool) (above : nat) recs rel st,
    flat_run_rel R rsize standalone above st rel recs = flat_run R rsize standalone above st recs.
Proof. exact flat_run_rel_eq_proof. Qed.

(* A rejected record - and any number of them in a row, however long the run - leaves NO state
   behind in the stream readers: the reader continues exactly as if the rejected records had not
   been in the input (same state, same Release pattern position, nothing delivered).  The model's
   loop consumes them token by token without accumulating anything (no recursion per record). *)
Theorem xml_rejected_restores :
  forall (pm : list name -> bool) (pred : tree -> bool) (has_filter : bool),
    (has_filter = false -> forall t, pred t = true) ->
    forall recs f r rel rest,
      Inv pm (f :: r) -> Forall (on_path_record pm (chain_of (f :: r))) recs ->
      Forall (fun x => pred (xtree x) = false) recs ->
      xrun pm pred has_filter false (mkS (f :: r) None SNone) rel (flat_map xevents recs ++ rest) =
      xrun pm pred has_filter false (mkS (f :: r) None SNone) rel rest.
Proof. exact xml_rejected_restores_proof. Qed.

Theorem json_rejected_restores :
  forall (pm : list name -> bool) (pred : tree -> bool) (has_filter : bool),
    (has_filter = false -> forall t, pred t = true) ->
    forall recs keyed f r rel rest,
      mode keyed f -> Inv pm (f :: r) -> Forall (jrecord pm (chain_of (f :: r)) keyed) recs ->
      Forall (fun j => pred (jkid keyed j) = false) recs ->
      jrun pm pred has_filter false (mkS (f :: r) None SNone) rel (flat_map (jevents keyed) recs ++ rest) =
      jrun pm pred has_filter false (mkS (f :: r) None SNone) rel rest.
Proof. exact json_rejected_restores_proof. Qed.

(* The xpath expressions of the transform and the process-wide expression cache.  The two facts
   behind the model - a dynamic xpath is queried with idr.DisableXPathCache, and that flag makes
   loadXPathExpr compile without touching the cache - are EXTRACTED from transform/parse.go and
   idr/query.go.  Queries with computed texts (xpath_dynamic), however many and however distinct,
   store nothing ... *)
Theorem dynamic_xpaths_store_nothing : forall qs c,
  Forall (fun q => fst q = true) qs -> query_all qs c = c.
Proof. exact dynamic_xpaths_store_nothing_proof. Qed.

(* ... and in general everything in the cache afterwards was there before or is the text of a
   non-dynamic query, i.e. a constant of the schema: the cache does not grow with the records. *)
Theorem cache_only_static : forall qs c x,
  In x (query_all qs c) -> In x c \/ In (false, x) qs.
Proof. exact cache_only_static_proof. Qed.

(* ---- F7: with character data between the records the bound is false ------------------------------ *)
Local Open Scope string_scope.
Definition E17 (n : String.string) (ks : list xnode) : xnode := XE (bs n) (FXml [] []) [] ks.
Definition f7_target := mkTarget [(Child, NTName [] (bs "r")); (Child, NTName [] (bs "n"))] [].
Definition f7_doc (k : nat) : list xnode :=
  [E17 "r" (flat_map (fun _ => [E17 "n" [XT (bs "1")]; XT [Byte.x0a]]) (repeat tt k))].

(* <r> + k x "<n>1</n>\n" + </r>, target /r/n: every whitespace run stays attached to <r>, the
   tree reachable from the k-th record has 3 + k nodes more... concretely for k = 8: *)
Theorem xml_ws_retained_refuted :
  exists doc, map snd (fst (xrun (pm_of f7_target) (pred_target f7_target) false false x_init
                                 (repeat true 8) (xdoc_events doc))) = [4; 5; 6; 7; 8; 9; 10; 11].
Proof. exists (f7_doc 8). vm_compute. reflexivity. Qed.

(* the same records without the separators: constant, as the theorem says *)
Example xml_nosep_constant :
  map snd (fst (xrun (pm_of f7_target) (pred_target f7_target) false false x_init (repeat true 8)
                     (xdoc_events (xnest [(bs "r", FXml [] [], [])] (repeat (E17 "n" [XT (bs "1")]) 8)))))
  = repeat 4 8.
Proof. vm_compute. reflexivity. Qed.

(* non-vacuity of the hypotheses of retained_bounded_xml_nosep: two ancestors with attributes,
   three records of different shapes one of which fails the filter *)
Example c17_xml_nonvacuous :
  let anc := [(bs "a", FXml [] [], [(bs "id", FXml [] [], bs "1")]); (bs "b", FXml [] [], [])] in
  let tg := mkTarget [(Child, NTName [] (bs "a")); (Child, NTName [] (bs "b")); (Child, NTName [] (bs "n"))]
                     [PChildEq (NTName [] (bs "x")) (bs "1")] in
  let recs := [E17 "n" [E17 "x" [XT (bs "1")]]; E17 "n" [E17 "x" [XT (bs "2")]]; E17 "n" [E17 "x" [XT (bs "1")]; E17 "y" []]] in
  forallb (fun k => negb (pm_of tg (firstn k (xanc_chain anc)))) [0; 1; 2] = true
  /\ forallb (fun x => pm_of tg (xanc_chain anc ++ [xname x])) recs = true
  /\ map snd (fst (xrun (pm_of tg) (pred_target tg) true false x_init [true; true] (xdoc_events (xnest anc recs))))
     = [1 + 4 + 3; 1 + 4 + 4].
Proof. vm_compute. repeat split. Qed.

Example c17_json_nonvacuous :
  let tg := mkTarget [(Child, NTAny)] [PChildEq (NTName [] (bs "a")) (bs "1")] in
  let r1 := JO [] [JS (bs "a") (JStrT (bs "1")); JS (bs "b") (JNumT (bs "2"))] in
  let r2 := JO [] [JS (bs "a") (JStrT (bs "0"))] in
  map snd (fst (jrun (pm_of tg) (pred_target tg) true false j_init [true; true; true]
                     (jdoc_events (JA [] [r1; r2; r1; r2; r1])))) = [6; 6; 6]
  /\ pm_of tg [] = false /\ pm_of tg [([], [])] = true.
Proof. vm_compute. repeat split. Qed.

(* attribute-only predicates with rejected records in between (the class of seeded change C17-1):
   /lib/shelf/book[@lang='en'][@kind] over en/k, xx, en (no kind), en/q, xx, en/k *)
Example c17_xml_attr_only_rejected :
  let anc := [(bs "lib", FXml [] [], [(bs "id", FXml [] [], bs "1")]); (bs "shelf", FXml [] [], [])] in
  let tg := mkTarget [(Child, NTName [] (bs "lib")); (Child, NTName [] (bs "shelf")); (Child, NTName [] (bs "book"))]
                     [PAttrEq ([], bs "lang") (bs "en"); PHasAttr ([], bs "kind")] in
  let book lang kind := XE (bs "book") (FXml [] [])
                           ((bs "lang", FXml [] [], bs lang) :: match kind with "" => [] | _ => [(bs "kind", FXml [] [], bs kind)] end)
                           [E17 "a" [XT (bs "1")]] in
  let recs := [book "en" "k"; book "xx" ""; book "en" ""; book "en" "q"; book "xx" ""; book "en" "k"] in
  map snd (fst (xrun (pm_of tg) (pred_target tg) true false x_init (repeat true 3) (xdoc_events (xnest anc recs))))
  = repeat (1 + 4 + 7) 3
  /\ forallb (fun x => pm_of tg (xanc_chain anc ++ [xname x])) recs = true.
Proof. vm_compute. split; reflexivity. Qed.

(* records as the values of an object keyed by id, two levels down, a third of them rejected
   (the class of seeded change C17-3) *)
Example c17_json_object_values_rejected :
  let tg := mkTarget [(Child, NTName [] (bs "x")); (Child, NTName [] (bs "recs")); (Child, NTAny)]
                     [PNot (PChildEq (NTName [] (bs "a")) (bs "skip"))] in
  let rec id a := JO (bs id) [JS (bs "a") (JStrT (bs a)); JS (bs "b") (JNumT (bs "2"))] in
  let recs := [rec "id0" "v"; rec "id1" "skip"; rec "id2" "v"; rec "id3" "skip"; rec "id4" "skip"; rec "id5" "w"] in
  map snd (fst (jrun (pm_of tg) (pred_target tg) true false j_init (repeat true 3)
                     (jdoc_events (JO [] [jnest (bs "x") [bs "recs"] false recs])))) = repeat (1 + 2 + 5) 3
  /\ forallb (fun k => negb (pm_of tg (firstn k (jkeys_chain [bs "x"; bs "recs"])))) [0; 1; 2] = true
  /\ forallb (fun j => jwf j && pm_of tg (jkeys_chain [bs "x"; bs "recs"] ++ [jname true j])) recs = true.
Proof. vm_compute. repeat split. Qed.

(* group instances with children, runs of rejections of different lengths between deliveries *)
Example c17_hier_runs_nonvacuous :
  let g n := HRec 1 [HRec 3 []; HRec 2 (repeat (HRec 2 []) n)] in
  let rej := FTarget hrec (g 5) false in
  map snd (flat_run hrec hsize false 2 (mkFS hrec [] false)
             [FTarget hrec (g 1) true; rej; rej; rej; FTarget hrec (g 2) true; rej; rej; FTarget hrec (g 1) true])
  = [2 + hsize (g 1); 2 + hsize (g 2); 2 + hsize (g 1)].
Proof. vm_compute. reflexivity. Qed.

Example c17_cache_nonvacuous :
  query_all [(false, bs "a"); (true, bs "attrs/k1"); (false, bs "key"); (true, bs "attrs/k2"); (false, bs "a")] [bs "/r/n"]
  = [bs "key"; bs "a"; bs "/r/n"].
Proof. vm_compute. reflexivity. Qed.
