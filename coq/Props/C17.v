(* C17 Memory retained while streaming does not grow with records delivered.
   Statements only; proofs in Proofs/StreamRetain.v.

   [retained k] is the second component of the k-th delivery of [xrun]/[jrun]/[flat_run]: the
   number of nodes reachable through parent links from the delivered record at delivery time
   (Model/Stream.v: [retained st] = size of the tree hanging off the reader's root). *)
From Coq Require Import List NArith Bool String.
Import ListNotations.
From OV Require Import Base.Bytes Base.Tree Model.Stream
  Proofs.Stream Proofs.StreamXml Proofs.StreamJson Proofs.StreamRetain.

(* XML.  Input = ancestors (any depth, with attributes) around ANY sequence of records, where a
   record is an element that is itself on the target path and - the named guard
   [no_separator_text] - nothing but records stands between the ancestors' tags
   ([on_path_record] is False for character data).  Then for every k and every number of records:
   retained k = 1 (document node) + size of the ancestors + size of the k-th delivered record,
   whatever the filter outcomes ([pred] arbitrary: passing and filtered-out targets), and the
   deliveries are exactly the records that pass. *)
Theorem retained_bounded_xml_nosep :
  forall (pm : list name -> bool) (pred : tree -> bool) (has_filter : bool),
    (has_filter = false -> forall t, pred t = true) ->
    forall anc recs rel,
      (forall k, k <= List.length anc -> pm (firstn k (xanc_chain anc)) = false) ->
      Forall (on_path_record pm (xanc_chain anc)) recs ->
      exists L,
        xrun pm pred has_filter false x_init rel (xdoc_events (xnest anc recs)) = (L, FEOF) /\
        Forall (fun d => snd d = 1 + xanc_size anc + tree_size (fst d)) L /\
        map fst L = filter pred (map xtree recs).
Proof. exact retained_bounded_xml_nosep_proof. Qed.

(* The invariant behind it, from ANY reader state between tokens in which no candidate is open
   ([Inv]: nothing in the partial tree is on the path): after each record - delivered and
   released, or rejected - the reader is back in exactly that state (the parent's child list is
   what it was before the record started). *)
Theorem retained_invariant_xml :
  forall (pm : list name -> bool) (pred : tree -> bool) (has_filter : bool),
    (has_filter = false -> forall t, pred t = true) ->
    forall recs f r rel rest,
      Inv pm (f :: r) -> Forall (on_path_record pm (chain_of (f :: r))) recs ->
      exists L,
        xrun pm pred has_filter false (mkS (f :: r) None SNone) rel (flat_map xevents recs ++ rest) =
        prepend L (xrun pm pred has_filter false (mkS (f :: r) None SNone) (skipn (List.length L) rel) rest) /\
        Forall (fun d => snd d = retained (mkS (f :: r) None SNone) + tree_size (fst d)) L /\
        map fst L = filter pred (map xtree recs).
Proof. exact xml_records. Qed.

(* JSON: a top-level array of any records (scalars, objects, arrays), target = its members. *)
Theorem retained_bounded_json :
  forall (pm : list name -> bool) (pred : tree -> bool) (has_filter : bool),
    (has_filter = false -> forall t, pred t = true) ->
    forall recs rel,
      pm [] = false -> Forall (jrecord pm [] false) recs ->
      exists L,
        jrun pm pred has_filter false j_init rel (jdoc_events (JA [] recs)) = (L, FEOF) /\
        Forall (fun d => snd d = 1 + tree_size (fst d)) L /\
        map fst L = filter pred (map (jkid false) recs).
Proof. exact retained_bounded_json_proof. Qed.

(* ... and from any state between tokens, inside an object ([keyed] = true) or an array. *)
Theorem retained_invariant_json :
  forall (pm : list name -> bool) (pred : tree -> bool) (has_filter : bool),
    (has_filter = false -> forall t, pred t = true) ->
    forall recs keyed f r rel rest,
      mode keyed f -> Inv pm (f :: r) -> Forall (jrecord pm (chain_of (f :: r)) keyed) recs ->
      exists L,
        jrun pm pred has_filter false (mkS (f :: r) None SNone) rel (flat_map (jevents keyed) recs ++ rest) =
        prepend L (jrun pm pred has_filter false (mkS (f :: r) None SNone) (skipn (List.length L) rel) rest) /\
        Forall (fun d => snd d = retained (mkS (f :: r) None SNone) + tree_size (fst d)) L /\
        map fst L = filter pred (map (jkid keyed) recs).
Proof. exact json_records. Qed.

(* Record-at-a-time readers (hierarchy reader of csv2/fixedlength2, EDI, fixed-length, old csv):
   for any sequence of target records and any filter outcomes, every delivery sees the fixed
   part plus exactly one record. *)
Theorem retained_bounded_flat :
  forall (R : Type) (rsize : R -> nat) (standalone : bool) (above : nat) recs kids0 st,
    Forall (is_target_rec R) recs ->
    fl_kids R (flat_prologue R st) = kids0 ->
    Forall (fun d => snd d = if standalone then rsize (fst d)
                             else above + fl_size R rsize kids0 + rsize (fst d))
           (flat_run R rsize standalone above st recs).
Proof. exact retained_bounded_flat_proof. Qed.

(* ---- F7: with character data between the records the bound is false ------------------------------ *)
Local Open Scope string_scope.
Definition E17 (n : String.string) (ks : list xnode) : xnode := XE (bs n) (FXml [] []) [] ks.
Definition f7_target := mkTarget [(Child, NTName [] (bs "r")); (Child, NTName [] (bs "n"))] [].
Definition f7_doc (k : nat) : list xnode :=
  [E17 "r" (flat_map (fun _ => [E17 "n" [XT (bs "1")]; XT [Byte.x0a]]) (repeat tt k))].

(* <r> + k x "<n>1</n>\n" + </r>, target /r/n: every whitespace run stays attached to <r>, the
   tree reachable from the k-th record has 3 + k nodes more... concretely for k = 8: *)
Theorem xml_ws_retained_refuted :
  exists doc, map snd (fst (xrun (pm_of f7_target) (pred_target f7_target) false false x_init
                                 (repeat true 8) (xdoc_events doc))) = [4; 5; 6; 7; 8; 9; 10; 11].
Proof. exists (f7_doc 8). vm_compute. reflexivity. Qed.

(* the same records without the separators: constant, as the theorem says *)
Example xml_nosep_constant :
  map snd (fst (xrun (pm_of f7_target) (pred_target f7_target) false false x_init (repeat true 8)
                     (xdoc_events (xnest [(bs "r", FXml [] [], [])] (repeat (E17 "n" [XT (bs "1")]) 8)))))
  = repeat 4 8.
Proof. vm_compute. reflexivity. Qed.

(* non-vacuity of the hypotheses of retained_bounded_xml_nosep: two ancestors with attributes,
   three records of different shapes one of which fails the filter *)
Example c17_xml_nonvacuous :
  let anc := [(bs "a", FXml [] [], [(bs "id", FXml [] [], bs "1")]); (bs "b", FXml [] [], [])] in
  let tg := mkTarget [(Child, NTName [] (bs "a")); (Child, NTName [] (bs "b")); (Child, NTName [] (bs "n"))]
                     [PChildEq (NTName [] (bs "x")) (bs "1")] in
  let recs := [E17 "n" [E17 "x" [XT (bs "1")]]; E17 "n" [E17 "x" [XT (bs "2")]]; E17 "n" [E17 "x" [XT (bs "1")]; E17 "y" []]] in
  forallb (fun k => negb (pm_of tg (firstn k (xanc_chain anc)))) [0; 1; 2] = true
  /\ forallb (fun x => pm_of tg (xanc_chain anc ++ [xname x])) recs = true
  /\ map snd (fst (xrun (pm_of tg) (pred_target tg) true false x_init [true; true] (xdoc_events (xnest anc recs))))
     = [1 + 4 + 3; 1 + 4 + 4].
Proof. vm_compute. repeat split. Qed.

Example c17_json_nonvacuous :
  let tg := mkTarget [(Child, NTAny)] [PChildEq (NTName [] (bs "a")) (bs "1")] in
  let r1 := JO [] [JS (bs "a") (JStrT (bs "1")); JS (bs "b") (JNumT (bs "2"))] in
  let r2 := JO [] [JS (bs "a") (JStrT (bs "0"))] in
  map snd (fst (jrun (pm_of tg) (pred_target tg) true false j_init [true; true; true]
                     (jdoc_events (JA [] [r1; r2; r1; r2; r1])))) = [6; 6; 6]
  /\ pm_of tg [] = false /\ pm_of tg [([], [])] = true.
Proof. vm_compute. repeat split. Qed.
