(* C05 Hierarchical segment/record structure is matched greedily and completely.
   Statements only; proofs in Proofs/Hier{Base,Sim,Main,Inst}.v.

   Model/Hier.v      hstep / edi_step: the explicit-stack machines of hierarchyReader.go and
                     edi/reader.go; flat_leaf / edi_leaf: the leaf matchers.
   Model/HierSpec.v  spec: the documented recursive greedy, non-backtracking matcher. *)
From Coq Require Import List Arith Bool.
Import ListNotations.
From OV Require Import Model.Hier Model.HierSpec Proofs.HierBase Proofs.HierSim Proofs.HierMain Proofs.HierInst.

(* FULL STATEMENT (machine_eq_spec):
     forall ds us, Forall (WF try_leaf) ds -> count_tgts ds <= 1 ->
       run (hstep try_leaf) (run_fuel ds us) (init ds us) = spec try_leaf ds us.
   PROVED below as machine_eq_spec_partial: the same equation for EVERY fuel with which the run
   reaches a terminal result (so: the machine can never produce anything but the specification's
   deliveries, subtrees and terminal class).  MISSING: hier_terminates, i.e. that
   run_fuel ds us = (decls_size ds + 3) * (length us + 2) * 3 + 8 iterations always reach a terminal
   result; it is checked on every correspondence case (an OutOfFuel would be a mismatch) and swept
   over a small scope in hier_terminates_small_scope. *)
Section Generic.
  (* any leaf matcher; WF asks of the leaves in the hierarchy that a match takes at least one and
     at most all of the remaining units (leaf_sound), of groups that they have children, min <= max,
     and max >= 1 *)
  Variable try_leaf : leaf -> list unt -> option nat.

  Theorem machine_eq_spec_partial : forall ds us fuel,
    Forall (WF try_leaf) ds -> count_tgts ds <= 1 ->
    snd (run (hstep try_leaf) fuel (init ds us)) <> TOutOfFuel ->
    run (hstep try_leaf) fuel (init ds us) = spec try_leaf ds us.
  Proof. exact (machine_eq_spec_run try_leaf). Qed.

  (* the specification's own occurrence-loop fuel (length us + 1 per loop) always suffices *)
  Theorem spec_fuel_enough : forall ds us,
    Forall (WF try_leaf) ds -> snd (spec try_leaf ds us) <> TOutOfFuel.
  Proof. exact (spec_fuel_enough try_leaf). Qed.

  (* EDI: same statement under the guard no_root_repeat (the unit left over when the declared
     top-level sequence has completed does not start the first top-level declaration again) *)
  Theorem edi_eq_spec_nested_partial : forall ds us fuel,
    Forall (WF try_leaf) ds -> count_tgts ds <= 1 -> no_root_repeat try_leaf ds us ->
    snd (run (edi_step try_leaf) fuel (init ds us)) <> TOutOfFuel ->
    run (edi_step try_leaf) fuel (init ds us) = spec try_leaf ds us.
  Proof. exact (edi_eq_spec_run try_leaf). Qed.

  (* units are consumed strictly left to right, none twice: in every state reachable from st0
     (through any number of loop iterations and Read/Release boundaries) the unprocessed units
     are a suffix of the input *)
  Theorem every_unit_consumed_or_error : forall st0 st,
    reach (hstep try_leaf) st0 st -> exists consumed, m_rest st0 = consumed ++ m_rest st.
  Proof. exact (reach_consumed (hstep try_leaf) (hstep_suffix try_leaf)). Qed.

  Theorem edi_every_unit_consumed_or_error : forall st0 st,
    reach (edi_step try_leaf) st0 st -> exists consumed, m_rest st0 = consumed ++ m_rest st.
  Proof. exact (reach_consumed (edi_step try_leaf) (edi_step_suffix try_leaf)). Qed.

  (* EOF only when every unit has been consumed; "unexpected data" only with a unit left, which is
     the first unprocessed one; a terminal result does not move the input position *)
  Theorem terminal_position : forall st t st',
    hstep try_leaf st = Ret (OTerm t) st' ->
    st' = st /\ (t = TEof -> m_rest st = []) /\ (t = TErrUnexpected -> m_rest st <> []).
  Proof. exact (hstep_terminal try_leaf). Qed.
End Generic.

(* the csv2/fixedlength2 matchers (rows-based, header/footer with read-ahead) and the EDI name
   matcher satisfy the hypothesis on leaves; hierarchies that pass validation (decl_okb) and have
   max >= 1 (max_posb) are well-formed *)
Theorem flat_machine_eq_spec_partial : forall ds us fuel,
  forallb wfb ds = true -> count_tgts ds <= 1 ->
  snd (run (hstep flat_leaf) fuel (init ds us)) <> TOutOfFuel ->
  run (hstep flat_leaf) fuel (init ds us) = spec flat_leaf ds us.
Proof.
  intros ds us fuel H. apply (machine_eq_spec_run flat_leaf). apply wfb_Forall_flat. exact H.
Qed.

Theorem edi_machine_eq_spec_nested_partial : forall ds us fuel,
  forallb wfb ds = true -> count_tgts ds <= 1 -> no_root_repeat edi_leaf ds us ->
  snd (run (edi_step edi_leaf) fuel (init ds us)) <> TOutOfFuel ->
  run (edi_step edi_leaf) fuel (init ds us) = spec edi_leaf ds us.
Proof.
  intros ds us fuel H. apply (edi_eq_spec_run edi_leaf). apply wfb_Forall_edi. exact H.
Qed.

(* F14 (known finding): without the guard the EDI statement is false.  Declarations A (target,
   max 1), Z (max 1), units A Z A Z: the machine delivers both A and ends with EOF, the greedy
   matcher delivers one A and reports unexpected data. *)
Theorem edi_root_repeat_refuted : exists ds us,
  edi_validb ds = true /\ forallb wfb ds = true /\
  snd (run_kind KEdi ds us) <> TOutOfFuel /\ run_kind KEdi ds us <> spec_kind KEdi ds us.
Proof.
  exists [D 1 false true 1 (Some 1) (LName 1) []; D 26 false false 1 (Some 1) (LName 26) []],
         [U 1 1; U 26 2; U 1 3; U 26 4].
  vm_compute. repeat split; discriminate.
Qed.

(* F17 (forced hypothesis max >= 1): "max": 0 passes validation, yet the machine accepts one
   occurrence where the documented meaning of max allows none *)
Theorem max_zero_refuted : exists ds us,
  flat_validb ds = true /\ snd (run_kind KFlat ds us) <> TOutOfFuel /\
  run_kind KFlat ds us <> spec_kind KFlat ds us.
Proof.
  exists [D 100 false true 0 (Some 0) (LName 1) []], [U 1 1].
  vm_compute. repeat split; discriminate.
Qed.

(* hier_terminates over a small scope (a finite sweep, not the general statement): every
   hierarchy of the shapes {d}, {d d}, {d[d]}, {g[d]} with min in {0,1,2}, max in {1,2,unbounded},
   names in {1,2}, and every word of length <= 3 over {1,2,24} reaches a terminal result within
   run_fuel iterations, on both machines *)
Theorem hier_terminates_small_scope :
  forallb (fun ds => forallb (fun us =>
      negb (match snd (run_kind KHier ds us) with TOutOfFuel => true | _ => false end) &&
      negb (match snd (run_kind KEdi ds us) with TOutOfFuel => true | _ => false end))
    small_words) small_hiers = true.
Proof. vm_compute. reflexivity. Qed.

(* ---- non-vacuity ---------------------------------------------------------------------------------- *)
(* group G(target, 0..unbounded)[A(1..1), B(0..2)] then Z(1..1); word A B B A B Z: two G instances
   are delivered with exactly their children, the stack is popped several times, EOF *)
Example c05_nonvacuous :
  let ds := [D 100 true true 0 None (LRows 0)
               [D 101 false false 1 (Some 1) (LName 1) []; D 102 false false 0 (Some 2) (LName 2) []];
             D 103 false false 1 (Some 1) (LName 26) []] in
  let us := [U 1 1; U 2 2; U 2 3; U 1 4; U 2 5; U 26 6] in
  forallb wfb ds = true /\ count_tgts ds <= 1 /\
  run_kind KHier ds us =
    ([I 100 [] [I 101 [1] []; I 102 [2] []; I 102 [3] []]; I 100 [] [I 101 [4] []; I 102 [5] []]], TEof) /\
  spec_kind KHier ds us = run_kind KHier ds us /\
  (* the EDI guard holds for this word, and fails for the F14 word *)
  no_root_repeat edi_leaf [D 1 false true 1 (Some 1) (LName 1) []] [U 1 1; U 2 2] /\
  ~ no_root_repeat edi_leaf [D 1 false true 1 (Some 1) (LName 1) []] [U 1 1; U 1 2].
Proof. vm_compute. repeat split; auto; try discriminate. Qed.
