(* C05 (placeholder while the proofs are being written) *)
From Coq Require Import List Arith. Import ListNotations.
From OV Require Import Model.Hier Model.HierSpec.
Theorem f14_witness :
  run_kind KEdi [D 1 false true 1 (Some 1) (LName 1) []; D 26 false false 1 (Some 1) (LName 26) []]
                [U 1 1; U 26 2; U 1 3; U 26 4]
  <> spec_kind KEdi [D 1 false true 1 (Some 1) (LName 1) []; D 26 false false 1 (Some 1) (LName 26) []]
                [U 1 1; U 26 2; U 1 3; U 26 4].
Proof. vm_compute. discriminate. Qed.
