(* C05 Hierarchical segment/record structure is matched greedily and completely.
   Statements only; proofs in Proofs/Hier{Base,Sim,Main,Inst,Term,Filter,Edi}.v.

   Model/Hier.v      hstep / edi_step: the explicit-stack machines of hierarchyReader.go and
                     edi/reader.go; flat_leaf / edi_leaf: the leaf matchers.
   Model/HierSpec.v  spec: the documented recursive greedy, non-backtracking matcher. *)
From Coq Require Import List Arith Bool.
Import ListNotations.
From OV Require Import Model.Hier Model.HierSpec Proofs.HierBase Proofs.HierSim Proofs.HierMain Proofs.HierInst Proofs.HierTerm Proofs.HierFilter Proofs.HierEdi.
From OV Require Import Gen.Occurs Model.HierOcc Proofs.HierOcc Model.HierLines Proofs.HierLines.
From Coq Require Import ZArith.

(* run_fuel ds us = 2 * ((N * units + N) * (B + 1) + B) + 1 loop iterations, N = size of the
   hierarchy + 2, B = N * N + N. *)
Section Generic.
  (* any leaf matcher; WF asks of the leaves in the hierarchy that a match takes at least one and
     at most all of the remaining units (leaf_sound), of groups that they have children, min <= max,
     and max >= 1 *)
  Variable try_leaf : leaf -> list unt -> option nat.

  (* the machine of hierarchyReader.go IS the documented greedy matcher: same deliveries in order,
     same subtrees, same terminal result -- for every well-formed hierarchy and every unit sequence *)
  Theorem machine_eq_spec : forall ds us,
    Forall (WF try_leaf) ds -> count_tgts ds <= 1 ->
    run (hstep try_leaf) (run_fuel ds us) (init ds us) = spec try_leaf ds us.
  Proof. exact (machine_eq_spec_full try_leaf). Qed.

  (* every Read returns: the whole run reaches its terminal result within run_fuel iterations
     (every group instance consumes a unit through its first record; between two matches the
     position only moves forward through the declarations) *)
  Theorem hier_terminates : forall ds us, Forall (WF try_leaf) ds ->
    snd (run (hstep try_leaf) (run_fuel ds us) (init ds us)) <> TOutOfFuel.
  Proof. exact (hier_terminates try_leaf). Qed.

  (* the specification's own occurrence-loop fuel (length us + 1 per loop) always suffices *)
  Theorem spec_fuel_enough : forall ds us,
    Forall (WF try_leaf) ds -> snd (spec try_leaf ds us) <> TOutOfFuel.
  Proof. exact (spec_fuel_enough try_leaf). Qed.

  (* EDI: same statement under the guard no_root_repeat (the unit left over when the declared
     top-level sequence has completed does not start the first top-level declaration again) *)
  Theorem edi_eq_spec_nested : forall ds us,
    Forall (WF try_leaf) ds -> count_tgts ds <= 1 -> no_root_repeat try_leaf ds us ->
    run (edi_step try_leaf) (run_fuel ds us) (init ds us) = spec try_leaf ds us.
  Proof. exact (edi_eq_spec_full try_leaf). Qed.

  (* the EDI machine terminates within the same bound, guard or not (also when the root group is
     instantiated again: that takes a unit each time) *)
  Theorem edi_terminates : forall ds us, Forall (WF try_leaf) ds ->
    snd (run (edi_step try_leaf) (run_fuel ds us) (init ds us)) <> TOutOfFuel.
  Proof. exact (edi_terminates try_leaf). Qed.

  (* EDI WITHOUT any guard: for every well-formed hierarchy and EVERY input the EDI machine is the
     recursive matcher with the declared top-level sequence repeated as long as the next unit
     starts its first declaration (spec_repeat).  This characterises the known finding F14
     exactly: the machine deviates from the documented matcher iff a further round changes the
     result. *)
  Theorem edi_eq_repeat_spec : forall ds us,
    Forall (WF try_leaf) ds -> count_tgts ds <= 1 ->
    run (edi_step try_leaf) (run_fuel ds us) (init ds us) = spec_repeat try_leaf ds us.
  Proof. exact (edi_eq_repeat_full try_leaf). Qed.

  Theorem edi_eq_spec_iff : forall ds us,
    Forall (WF try_leaf) ds -> count_tgts ds <= 1 ->
    (run (edi_step try_leaf) (run_fuel ds us) (init ds us) = spec try_leaf ds us <->
     spec_repeat try_leaf ds us = spec try_leaf ds us).
  Proof.
    intros ds us Hwf Hc. rewrite (edi_eq_repeat_full try_leaf ds us Hwf Hc). tauto.
  Qed.

  (* inside the guard no further round starts *)
  Theorem guard_means_single_round : forall ds us,
    no_root_repeat try_leaf ds us -> spec_repeat try_leaf ds us = spec try_leaf ds us.
  Proof. exact (repeat_eq_spec_iff_guard try_leaf). Qed.

  (* units are consumed strictly left to right, none twice: in every state reachable from st0
     (through any number of loop iterations and Read/Release boundaries) the unprocessed units
     are a suffix of the input *)
  Theorem every_unit_consumed_or_error : forall st0 st,
    reach (hstep try_leaf) st0 st -> exists consumed, m_rest st0 = consumed ++ m_rest st.
  Proof. exact (reach_consumed (hstep try_leaf) (hstep_suffix try_leaf)). Qed.

  Theorem edi_every_unit_consumed_or_error : forall st0 st,
    reach (edi_step try_leaf) st0 st -> exists consumed, m_rest st0 = consumed ++ m_rest st.
  Proof. exact (reach_consumed (edi_step try_leaf) (edi_step_suffix try_leaf)). Qed.

  (* EOF only when every unit has been consumed; "unexpected data" only with a unit left, which is
     the first unprocessed one; a terminal result does not move the input position *)
  Theorem terminal_position : forall st t st',
    hstep try_leaf st = Ret (OTerm t) st' ->
    st' = st /\ (t = TEof -> m_rest st = []) /\ (t = TErrUnexpected -> m_rest st <> []).
  Proof. exact (hstep_terminal try_leaf). Qed.
  (* The FINAL_OUTPUT filter on the target is transparent to the matcher: with ANY filter [keep] on
     completed target instances, the machine delivers exactly the unfiltered machine's deliveries
     minus the rejected ones and ends with the same terminal result -- occurrence counting, max
     enforcement and the advance to the next declaration do not see the filter. *)
  Theorem filter_transparent : forall (keep : inst -> bool) ds us,
    Forall (WF try_leaf) ds -> count_tgts ds <= 1 ->
    run (hstep_f keep try_leaf) (run_fuel ds us) (init ds us) =
      filter_res keep (run (hstep try_leaf) (run_fuel ds us) (init ds us)) /\
    run (hstep_f keep try_leaf) (run_fuel ds us) (init ds us) = filter_res keep (spec try_leaf ds us).
  Proof. intros keep. exact (filter_transparent_full keep try_leaf). Qed.

  (* EDI: for every run of the unfiltered machine that ends without panic (guard or not) *)
  Theorem edi_filter_transparent : forall (keep : inst -> bool) fuel ds us,
    not_panic (snd (run (edi_step try_leaf) fuel (init ds us))) ->
    snd (run (edi_step try_leaf) fuel (init ds us)) <> TOutOfFuel ->
    run (edi_step_f keep try_leaf) fuel (init ds us) =
    filter_res keep (run (edi_step try_leaf) fuel (init ds us)).
  Proof. intros keep. exact (edi_filter_transparent_run keep try_leaf). Qed.

  Theorem edi_filter_eq_spec_nested : forall (keep : inst -> bool) ds us,
    Forall (WF try_leaf) ds -> count_tgts ds <= 1 -> no_root_repeat try_leaf ds us ->
    run (edi_step_f keep try_leaf) (run_fuel ds us) (init ds us) = filter_res keep (spec try_leaf ds us).
  Proof. intros keep. exact (edi_filter_transparent_full keep try_leaf). Qed.

  (* the machines without a filter (targetXPathExpr == nil) are the filtered ones with the filter
     that keeps everything *)
  Theorem nofilter_is_plain : forall st,
    hstep_f (fun _ => true) try_leaf st = hstep try_leaf st /\
    edi_step_f (fun _ => true) try_leaf st = edi_step try_leaf st.
  Proof. intros st. split; [apply nofilter_hstep|apply nofilter_edi_step]. Qed.
End Generic.

(* the csv2/fixedlength2 matchers (rows-based, header/footer with read-ahead) and the EDI name
   matcher satisfy the hypothesis on leaves; hierarchies that pass validation (decl_okb) and have
   max >= 1 (max_posb) are well-formed *)
Theorem flat_machine_eq_spec : forall ds us,
  forallb wfb ds = true -> count_tgts ds <= 1 ->
  run_kind KHier ds us = spec_kind KHier ds us.
Proof. exact flat_machine_eq_spec_full. Qed.

Theorem edi_machine_eq_spec_nested : forall ds us,
  forallb wfb ds = true -> count_tgts ds <= 1 -> no_root_repeat edi_leaf ds us ->
  run_kind KEdi ds us = spec_kind KEdi ds us.
Proof. exact edi_machine_eq_spec_full. Qed.

(* How an omitted or negative min / max is resolved, over the rules EXTRACTED from the
   MinOccurs/MaxOccurs functions of the three formats (Gen/Occurs.v): csv2 and fixedlength2 default to
   0 .. unbounded, EDI to 1 .. 1; a negative max means unbounded everywhere; explicit values are
   taken as written (so max = 0 stays 0: finding F17). *)
Theorem occurs_defaults :
  resolve_min occ_csv2 None = 0 /\ resolve_max occ_csv2 None = None /\
  resolve_min occ_fixedlength2 None = 0 /\ resolve_max occ_fixedlength2 None = None /\
  resolve_min occ_edi None = 1 /\ resolve_max occ_edi None = Some 1 /\
  forall r, In r [occ_csv2; occ_fixedlength2; occ_edi] ->
    (forall z, (z < 0)%Z -> resolve_max r (Some z) = None) /\
    (forall z, (0 <= z)%Z -> resolve_max r (Some z) = Some (Z.to_nat z) /\ resolve_min r (Some z) = Z.to_nat z).
Proof. exact occurs_defaults_lemma. Qed.

(* ---- the line acquisition layer under the matcher (csv2 / fixedlength2 readLine, linesBuf) ---- *)
(* Physical lines are empty (skipped by readLine) or units; buf = linesBuf, src = lines not read yet.
   For EVERY buffer content and EVERY sequence of physical lines:
   MoreUnprocessedData answers "is a unit left", and keeps every unit, in order *)
Theorem lines_more_unprocessed : forall buf src,
  let '(more, buf', src') := more_unprocessed buf src in
  buf' ++ units_of src' = buf ++ units_of src /\
  (more = true <-> buf ++ units_of src <> []) /\ (more = true -> buf' <> []) /\
  length buf' + length src' <= length buf + length src.
Proof. exact more_unprocessed_ok. Qed.

(* a rows-based record matches iff k units (non-empty lines) are left, whatever empty lines lie
   between them; read-ahead only appends to linesBuf: nothing is lost or reordered *)
Theorem lines_rows_refine : forall k fuel buf src, length src <= fuel ->
  let '(ok, buf', src') := rows_fill k buf src fuel in
  buf' ++ units_of src' = buf ++ units_of src /\
  (ok = true <-> k <= length (buf ++ units_of src)) /\ (ok = true -> k <= length buf').
Proof. exact rows_fill_ok. Qed.

(* the header/footer loop of readAndMatchHeaderFooterBased*, for arbitrary header / footer
   predicates on a line: its answer is the declarative window over the units still to come (starts
   on a header line, ends at the first footer line from the header line on; EOF first = no match),
   the whole window is in linesBuf afterwards, and every unit is still there, in order *)
Theorem lines_header_footer_refine : forall (hp fp : unt -> bool) buf src,
  let '(r, buf', src') := hf_match hp fp buf src in
  buf' ++ units_of src' = buf ++ units_of src /\
  r = window hp fp (buf ++ units_of src) /\
  (forall m, r = Some m -> m <= length buf').
Proof. exact hf_match_ok. Qed.

(* and the unit-level leaf matchers the machine theorems use are exactly these windows *)
Theorem leaf_matchers_are_windows : forall h f us,
  flat_leaf (LHF h f) us = window (fun u => u_name u =? h) (fun u => u_name u =? f) us /\
  flat_leaf (LPat h (Some f)) us =
    window (fun u => Nat.testbit (u_name u) h) (fun u => Nat.testbit (u_name u) f) us.
Proof. intros. split; [apply flat_leaf_LHF_window|apply flat_leaf_LPat_window]. Qed.

Example lines_nonvacuous :
  let u := fun n i => Some (U n i) in
  (* H, blank, M, blank, blank, T, X with nothing buffered yet: the window is 3 units long *)
  hf_match (fun x => u_name x =? 8) (fun x => u_name x =? 20) []
           [None; u 8 1; None; u 13 2; None; None; u 20 3; u 24 4]
  = (Some 3, [U 8 1; U 13 2; U 20 3], [u 24 4]) /\
  (* no footer before EOF: no match, and all units are kept *)
  fst (fst (hf_match (fun x => u_name x =? 8) (fun x => u_name x =? 20) [] [u 8 1; None; u 13 2])) = None.
Proof. vm_compute. split; reflexivity. Qed.

(* F14 (known finding): without the guard the EDI statement is false.  Declarations A (target,
   max 1), Z (max 1), units A Z A Z: the machine delivers both A and ends with EOF, the greedy
   matcher delivers one A and reports unexpected data. *)
Theorem edi_root_repeat_refuted : exists ds us,
  edi_validb ds = true /\ forallb wfb ds = true /\
  snd (run_kind KEdi ds us) <> TOutOfFuel /\ run_kind KEdi ds us <> spec_kind KEdi ds us.
Proof.
  exists [D 1 false true 1 (Some 1) (LName 1) []; D 26 false false 1 (Some 1) (LName 26) []],
         [U 1 1; U 26 2; U 1 3; U 26 4].
  vm_compute. repeat split; discriminate.
Qed.

(* F17 (forced hypothesis max >= 1): "max": 0 passes validation, yet the machine accepts one
   occurrence where the documented meaning of max allows none *)
Theorem max_zero_refuted : exists ds us,
  flat_validb ds = true /\ snd (run_kind KFlat ds us) <> TOutOfFuel /\
  run_kind KFlat ds us <> spec_kind KFlat ds us.
Proof.
  exists [D 100 false true 0 (Some 0) (LName 1) []], [U 1 1].
  vm_compute. repeat split; discriminate.
Qed.

(* ---- non-vacuity ---------------------------------------------------------------------------------- *)
(* group G(target, 0..unbounded)[A(1..1), B(0..2)] then Z(1..1); word A B B A B Z: two G instances
   are delivered with exactly their children, the stack is popped several times, EOF *)
Example c05_nonvacuous :
  let ds := [D 100 true true 0 None (LRows 0)
               [D 101 false false 1 (Some 1) (LName 1) []; D 102 false false 0 (Some 2) (LName 2) []];
             D 103 false false 1 (Some 1) (LName 26) []] in
  let us := [U 1 1; U 2 2; U 2 3; U 1 4; U 2 5; U 26 6] in
  forallb wfb ds = true /\ count_tgts ds <= 1 /\
  run_kind KHier ds us =
    ([I 100 [] [I 101 [1] []; I 102 [2] []; I 102 [3] []]; I 100 [] [I 101 [4] []; I 102 [5] []]], TEof) /\
  spec_kind KHier ds us = run_kind KHier ds us /\
  (* the EDI guard holds for this word, and fails for the F14 word *)
  no_root_repeat edi_leaf [D 1 false true 1 (Some 1) (LName 1) []] [U 1 1; U 2 2] /\
  ~ no_root_repeat edi_leaf [D 1 false true 1 (Some 1) (LName 1) []] [U 1 1; U 1 2].
Proof. vm_compute. repeat split; auto; try discriminate. Qed.

(* the filter case the implementation was once wrong on (seeded): A (target, max 1); the first A
   is rejected by the filter AND reaches max, a second A follows: nothing is delivered and the
   second A is unexpected data -- not a delivery and clean EOF *)
Example c05_filter_nonvacuous :
  let ds := [D 100 false true 0 (Some 1) (LName 1) []] in
  let us := [U 1 1; U 1 2] in
  run_kind_f (keep_unflagged [1]) KHier ds us = ([], TErrUnexpected) /\
  run_kind KHier ds us = ([I 100 [1] []], TErrUnexpected) /\
  filter_res (keep_unflagged [1]) (spec_kind KHier ds us) = ([], TErrUnexpected) /\
  (* EDI, inside the guard no_root_repeat: Z(0..1), G(1..1)[A (target, max 1)], word A A *)
  run_kind_f (keep_unflagged [1]) KEdi [D 26 false false 0 (Some 1) (LName 26) []; D 101 true false 1 (Some 1) (LRows 0) ds] us
    = ([], TErrUnexpected).
Proof. vm_compute. repeat split; reflexivity. Qed.
