(* C06 - placeholder while the proofs are being written *)
From Coq Require Import List.
From OV Require Import Model.Csv Model.Fixed Model.Delim.
Theorem c06_placeholder : True. Proof. exact I. Qed.
