(* C06 Delimited and fixed-length fields carry exactly the input text.
   Statements only; proofs in Proofs/Delim{Utf8,Csv,Fixed,Readers}.v.  Models: Model/{Csv,Fixed,Delim}.v. *)
From Coq Require Import List NArith Bool Arith.
From Coq.Strings Require Import Byte.
From Coq Require String.
Import String.StringSyntax.
Import ListNotations.
From OV Require Import Base.Bytes Base.Utf8 Base.Cases Base.Tree Gen.CsvCfg Model.Csv Model.Fixed Model.Delim
  Proofs.DelimUtf8 Proofs.DelimCsv Proofs.DelimFixed Proofs.DelimReaders Proofs.DelimLine Proofs.DelimCsv2 Proofs.DelimJump Proofs.DelimValid Proofs.DelimFixed2 Proofs.DelimFixed1.
Local Open Scope string_scope.
Local Open Scope list_scope.

(* ---- fixed-length: the rune-counted slice ---------------------------------------------------------- *)
(* chunks cuts a line into the units utf8.DecodeRune steps over (Base.Utf8.runes_sz): *)
Theorem chunks_are_decode_steps : forall line,
  concat (chunks line) = line /\ map (@length byte) (chunks line) = map snd (runes_sz line).
Proof. exact (fun line => conj (concat_chunks line) (chunks_runes_sz line)). Qed.

(* for all lines (any bytes), all start positions and lengths, including positions past the end
   of the line, overlaps and gaps: the column value is the runes [start_pos, start_pos+length). *)
Theorem fixed_slice_spec : forall start_pos len line,
  rune_slice start_pos len line = concat (firstn len (skipn (start_pos - 1) (chunks line))).
Proof. exact fixed_slice_spec. Qed.

(* a declared length that reaches the end of the line - every value from the line's rune count up,
   e.g. 2147483648 or 9223372036854775807 used as "the rest of the line" - gives the rest of the
   line from start_pos, for every start_pos (empty only when start_pos is past the end); the result
   does not depend on which such length is written *)
Theorem fixed_slice_huge_length : forall start_pos len len' line,
  rune_count line <= len -> rune_count line <= len' ->
  rune_slice start_pos len line = skip_runes (start_pos - 1) line
  /\ rune_slice start_pos len line = concat (skipn (start_pos - 1) (chunks line))
  /\ rune_slice start_pos len line = rune_slice start_pos len' line.
Proof.
  exact (fun s l l' line H H' =>
    conj (proj2 (fixed_slice_rest_proof s l line H))
      (conj (proj1 (fixed_slice_rest_proof s l line H))
            (eq_trans (proj1 (fixed_slice_rest_proof s l line H))
                      (eq_sym (proj1 (fixed_slice_rest_proof s l' line H')))))).
Qed.

Theorem rune_count_at_most_bytes : forall line, rune_count line <= length line.
Proof. exact rune_count_le. Qed.

(* on valid UTF-8 (utf8.Valid) the slice is the re-encoding of the runes [start_pos, start_pos+length)
   of []rune(line) *)
Theorem fixed_slice_valid : forall start_pos len line, utf8_valid line = true ->
  rune_slice start_pos len line = encode_runes (firstn len (skipn (start_pos - 1) (runes line))).
Proof. exact fixed_slice_valid_proof. Qed.

(* the bytes DecodeRune consumes are the encoding of the rune it returns, unless it reports
   (RuneError, 1): complete sweeps over lead and continuation bytes *)
Theorem decode_then_encode : forall b0 rest,
  is_error_step (decode_rune (b0 :: rest)) = false ->
  firstn (snd (decode_rune (b0 :: rest))) (b0 :: rest) = encode_rune (fst (decode_rune (b0 :: rest))).
Proof. exact decode_then_encode. Qed.

Example fixed_slice_nonvacuous :
  rune_slice 2 3 (hx "61c3a9e697a5ff62") = hx "c3a9e697a5ff"        (* a é 日 \xff b : [2,5) *)
  /\ rune_slice 5 9 (hx "61c3a9e697a5ff62") = hx "62"                 (* reaches past the end *)
  /\ rune_slice 9 2 (hx "61c3a9e697a5ff62") = []                      (* entirely past the end *)
  /\ rune_slice 3 65536 (hx "61c3a9e697a5ff62") = hx "e697a5ff62"     (* the rest of the line from rune 3 *)
  /\ rune_count (hx "61c3a9e697a5ff62") = 5
  /\ utf8_valid (hx "61c3a9e697a5f09f988062") = true
  /\ rune_slice 2 3 (hx "61c3a9e697a5f09f988062") = encode_runes [233; 26085; 128512]%N.
Proof. vm_compute. auto 8. Qed.

(* ---- csv: the RFC reader reads back every table the encoder writes ----------------------------- *)
(* for all delimiters encoding/csv accepts (any valid rune except NUL, the double quote, CR, LF, U+FFFD), all
   tables of arbitrary byte fields, any choice of quoted/unquoted per field (quoted whenever the
   field contains the delimiter, a quote, CR or LF), any LF/CRLF terminator per row, any empty
   lines before rows and at the end.  Side conditions of the grammar: a row has at least one
   field, and a row that is a single empty field is written quoted (otherwise it is an empty
   line).  Inside quotes CRLF reads as LF (crlf2lf), which is encoding/csv's documented
   behaviour; for fields without CR the value is returned exactly (crlf2lf_id). *)
Theorem csv_roundtrip : forall comma t trailing,
  valid_delim comma = true -> Forall (wf_row (encode_rune comma)) t ->
  csv_read comma (csv_encode comma t trailing)
  = map (fun r => CRec (map (fun qf => crlf2lf (snd qf)) (r_fields r))) t.
Proof. exact (fun comma t trailing V => csv_roundtrip_proof comma V t trailing). Qed.

(* The model of encoding/csv transcribes the reader for ONE configuration (cfg_supported: Comma =
   first rune of the declared delimiter, FieldsPerRecord < 0, no LazyQuotes, no TrimLeadingSpace,
   no Comment; replace_double_quotes maps 0x22 to 0x27).  Gen/CsvCfg.v holds what the two
   NewReader functions of /repo assign, extracted on every run: both readers use exactly that
   configuration, so csv_next (what every csv theorem here talks about) is the transcription. *)
Theorem csv_reader_configuration :
  cfg_supported old_csv_cfg = true /\ cfg_supported csv2_cfg = true
  /\ forall comma st, csv_next comma st = csv_next_strict comma st.
Proof. exact (conj eq_refl (conj eq_refl csv_next_is_strict)). Qed.

(* replace_double_quotes: every table written without quoting (cells may contain double quotes, but
   - after the replacement - no delimiter, CR or LF) reads back with the quotes replaced *)
Theorem csv_replace_dq_roundtrip : forall comma t trailing,
  valid_delim comma = true ->
  Forall (fun r => Forall (fun qf : bool * bytes => fst qf = false) (r_fields r)) t ->
  Forall (wf_row (encode_rune comma)) (map rq_row t) ->
  csv_read comma (replace_dq (csv_encode comma t trailing))
  = map (fun r => CRec (map (fun qf => crlf2lf (snd qf)) (r_fields (rq_row r)))) t.
Proof.
  exact (fun comma t trailing V Hu Hw =>
    eq_trans (csv_replace_dq_roundtrip_proof comma t trailing V Hu Hw) (map_map rq_row row_out t)).
Qed.

Example csv_replace_dq_nonvacuous :
  let t := [mkRow [] [(false, hx "612262"); (false, hx "22")] false] in     (* a"b,"  *)
  csv_read 44%N (replace_dq (csv_encode 44%N t [])) = [CRec [hx "612762"; hx "27"]].
Proof. vm_compute. reflexivity. Qed.

Theorem csv_value_exact : forall c, mem_byte CR c = false -> crlf2lf c = c.
Proof. exact crlf2lf_id. Qed.

Example csv_roundtrip_nonvacuous :
  let t := [mkRow [true] [(false, hx "61"); (true, hx "2c220d0a7a"); (false, [])] true;
            mkRow [] [(true, [])] false] in
  valid_delim 44%N = true
  /\ csv_encode 44%N t [false] = hx "0d0a612c222c22220d0a7a222c0d0a22220a0a"
  /\ csv_read 44%N (csv_encode 44%N t [false]) = [CRec [hx "61"; hx "2c220a7a"; []]; CRec [[]]].
Proof. vm_compute. auto. Qed.

Theorem empty_lines_ignored : forall comma t trailing,
  valid_delim comma = true -> Forall (wf_row (encode_rune comma)) t ->
  csv_read comma (csv_encode comma t trailing) = csv_read comma (csv_encode comma (map no_blanks t) []).
Proof. exact empty_lines_ignored_proof. Qed.

Theorem fixed_empty_lines_ignored : forall b X fuel gen,
  f1_readline (S fuel) (eol b ++ X) = f1_readline fuel X
  /\ f2_fetch (S fuel) (eol b ++ X) gen = f2_fetch fuel X (S gen).
Proof. exact (fun b X fuel gen => conj (f1_readline_skips_empty b X fuel) (f2_fetch_skips_empty b X fuel gen)). Qed.

(* ... and ONLY those: every non-empty line - in particular a line made of blanks only (space
   padded fields that are all empty) or a single space - is a line of data for both readers *)
Theorem fixed_blank_lines_are_data : forall l crlf X,
  l <> [] -> mem_byte LF l = false -> mem_byte CR l = false ->
  (forall fuel, f1_readline (S fuel) (l ++ eol crlf ++ X) = Some (Some l, X))
  /\ (forall fuel gen, f2_fetch (S fuel) (l ++ eol crlf ++ X) gen = Some (Some l, X, S gen)).
Proof. exact nonempty_line_kept. Qed.

(* a CRLF terminator takes exactly one CR: a line whose own text contains CR - anywhere, also as its
   last rune (on the wire CR CR LF), or a line of CRs only - is delivered with its text unchanged *)
Theorem fixed_cr_in_text_is_data : forall t X, t <> [] -> mem_byte LF t = false ->
  read_line (t ++ CR :: LF :: X) = RLOk t X
  /\ (forall fuel, f1_readline (S fuel) (t ++ CR :: LF :: X) = Some (Some t, X))
  /\ (forall fuel gen, f2_fetch (S fuel) (t ++ CR :: LF :: X) gen = Some (Some t, X, S gen)).
Proof. exact crlf_takes_one_cr. Qed.

Example fixed_cr_nonvacuous :
  read_line (hx "61620d0d0a63") = RLOk (hx "61620d") (hx "63") /\ read_line (hx "0d0d0a63") = RLOk (hx "0d") (hx "63").
Proof. vm_compute. auto. Qed.

Example fixed_blank_line_nonvacuous :
  (* rows: 2, the second line of the envelope is three blanks: it is the envelope's second row *)
  let d := mkEnv2 (hx "72") (Rows 2) true 0 None [mkFCol (hx "61") 1 2 (Some 1) None; mkFCol (hx "62") 1 5 (Some 2) None] in
  fst (read_and_matchF pat_match d true (f2_init (hx "78790a2020200a7a0a")))
  = Ok (true, Some (T ElementNode (hx "72") FNone [text_elem (hx "61") (hx "7879"); text_elem (hx "62") (hx "202020")])).
Proof. vm_compute. reflexivity. Qed.

(* ---- old csv reader --------------------------------------------------------------------------------- *)
(* a record becomes a node whose j-th child is the j-th declared column holding field j; columns
   beyond the row are absent, fields beyond the declared columns are dropped *)
Theorem csv_node_columns : forall d rec,
  let ks := t_kids (record_to_node d rec) in
  length ks = Nat.min (length rec) (length (d_cols d)) /\
  forall j v c, nth_error rec j = Some v -> nth_error (d_cols d) j = Some c ->
                nth_error ks j = Some (text_elem (snd c) v).
Proof. exact csv_node_columns_proof. Qed.

(* once the header check is done: for every declaration, every table (as in csv_roundtrip), every
   row is delivered exactly once, in input order, each as the node of its fields, then io.EOF *)
Theorem csv_column_fidelity : forall trim d trailing t n,
  valid_delim (d_delim d) = true -> Forall (wf_row (encode_rune (d_delim d))) t ->
  run_reads ost (old_read trim d) (S (length t))
            (mkO (mkC (flat_map (enc_row (encode_rune (d_delim d))) t ++ flat_map eol trailing) n) true false)
  = map (row_node d) t ++ [OEOF].
Proof. exact (fun trim d trailing t n V H => old_rows trim d V trailing t n H). Qed.

(* header on line 1, data from line 2 (the common configuration), through the header check *)
Theorem csv_header_then_rows : forall trim d hdr t trailing,
  valid_delim (d_delim d) = true ->
  d_header d = Some 1 -> d_data d = 2 -> d_replace_dq d = false ->
  wf_row (encode_rune (d_delim d)) hdr -> r_blanks hdr = [] -> nl_fields (r_fields hdr) = 0 ->
  header_matches trim d (norm_fields (r_fields hdr)) = true ->
  Forall (wf_row (encode_rune (d_delim d))) t ->
  run_reads ost (old_read trim d) (S (length t))
            (old_init d (enc_row (encode_rune (d_delim d)) hdr
                         ++ flat_map (enc_row (encode_rune (d_delim d))) t ++ flat_map eol trailing))
  = map (row_node d) t ++ [OEOF].
Proof. exact (fun trim d hdr t trailing V => header_then_rows trim d V hdr t trailing). Qed.

(* every header_row_index / data_row_index, every table (blank lines and multi-line rows anywhere,
   also before the header and between header and data), any number of Reads that is large enough:
   the reader delivers exactly old_spec - jumpTo reads whole records while the decoder's physical
   line counter is below the index (jump_spec; a record takes row_lines physical lines), the next
   record is the header, and after the data-row jump every remaining row is delivered in order. *)
Theorem csv_jump_general : forall trim d rows trailing count,
  valid_delim (d_delim d) = true -> d_replace_dq d = false ->
  Forall (wf_row (encode_rune (d_delim d))) rows -> length rows < count ->
  run_reads ost (old_read trim d) count
            (old_init d (flat_map (enc_row (encode_rune (d_delim d))) rows ++ flat_map eol trailing))
  = old_spec trim d rows.
Proof. exact (fun trim d rows trailing count V => csv_jump_general_proof trim d V rows trailing count). Qed.

Example csv_jump_nonvacuous :
  (* header on line 1, data_row_index 4; rows a / x / (blank) y / z: the jump to line 3 reads the
     record "y" together with the blank line before it, so only z is delivered *)
  let d := mkCsvDecl 44%N false (Some 1) 4 [(hx "61", hx "61")] in
  let row v bl := mkRow bl [(false, v)] false in
  let rows := [row (hx "61") []; row (hx "78") []; row (hx "79") [false]; row (hx "7a") []] in
  old_spec trim_space d rows = [ONode (T DocumentNode [] FNone [text_elem (hx "61") (hx "7a")]); OEOF]
  /\ run_reads ost (old_read trim_space d) 5 (old_init d (hx "610a780a0a790a7a0a")) = old_spec trim_space d rows.
Proof. vm_compute. auto. Qed.

(* a declared header that does not match (or cannot be read) is rejected with the fatal header
   error by the first Read, before any record: for every input, every header_row_index, any
   number of further Reads requested.  [trim] is strings.TrimSpace (any function). *)
Theorem csv_header_rejects : forall trim d input h st1 r st2,
  d_header d = Some h ->
  jump_to (S h) (d_delim d) (h - 1) (o_c (old_init d input)) = Some (JOk, st1) ->
  csv_next (d_delim d) st1 = (r, st2) ->
  r <> CFuel ->
  (forall hdr, r = CRec hdr -> header_matches trim d hdr = false) ->
  forall k, run_reads ost (old_read trim d) (S k) (old_init d input) = [OFatal].
Proof. exact header_rejects_general. Qed.

(* the header line is one on which the csv decoder itself fails (stray quote in an unquoted cell,
   text after a closing quote, ...): the first Read returns the fatal header error and nothing else
   is ever returned - in particular no record, however long the caller keeps reading *)
Theorem csv_header_parse_error : forall trim d input h st1 st2,
  d_header d = Some h ->
  jump_to (S h) (d_delim d) (h - 1) (o_c (old_init d input)) = Some (JOk, st1) ->
  csv_next (d_delim d) st1 = (CParseErr, st2) ->
  forall k, run_reads ost (old_read trim d) (S k) (old_init d input) = [OFatal].
Proof. exact header_parse_error. Qed.

(* in terms of the input text: header on line 1 whose first cell is unquoted and contains a quote *)
Theorem csv_header_bare_quote_first_line : forall trim d f tailf rest,
  valid_delim (d_delim d) = true ->
  d_header d = Some 1 -> d_replace_dq d = false ->
  f <> [] -> head_is_quote f = false -> index_sub (encode_rune (d_delim d)) f = None ->
  mem_byte QUOTE f = true ->
  (tailf = [] \/ exists g, tailf = encode_rune (d_delim d) ++ g) ->
  mem_byte LF (f ++ tailf) = false -> mem_byte CR (f ++ tailf) = false ->
  forall k, run_reads ost (old_read trim d) (S k) (old_init d ((f ++ tailf) ++ LF :: rest)) = [OFatal].
Proof. exact (fun trim d f tailf rest V => header_bare_quote_first_line trim d V f tailf rest). Qed.

(* a failure of reading the input (not a csv parse error) while rows are skipped - repair N10: the
   first Read returns a fatal error at once, for every header_row_index / data_row_index (jumpTo
   does not retry the failing read for each row still to skip), and nothing is returned after it.
   In the in-memory model the one such error is encoding/csv's rejection of its delimiter. *)
Theorem csv_input_failure_is_fatal_at_once : forall trim d input k,
  valid_delim (d_delim d) = false ->
  run_reads ost (old_read trim d) (S k) (old_init d input) = [OFatal].
Proof. exact csv_input_failure_fatal_proof. Qed.

Theorem csv_header_unreadable : forall trim d input h st1,
  d_header d = Some h ->
  jump_to (S h) (d_delim d) (h - 1) (o_c (old_init d input)) = Some (JEof, st1) ->
  forall k, run_reads ost (old_read trim d) (S k) (old_init d input) = [OFatal].
Proof. exact header_unreadable. Qed.

Theorem csv_header_rejects_first_line : forall trim d hdr rest,
  valid_delim (d_delim d) = true ->
  d_header d = Some 1 -> d_replace_dq d = false -> wf_row (encode_rune (d_delim d)) hdr ->
  header_matches trim d (norm_fields (r_fields hdr)) = false ->
  forall k, run_reads ost (old_read trim d) (S k)
                      (old_init d (enc_row (encode_rune (d_delim d)) hdr ++ rest)) = [OFatal].
Proof. exact (fun trim d hdr rest V => header_rejects_first_line trim d V hdr rest). Qed.

Example csv_header_nonvacuous :
  let d := mkCsvDecl 59%N false (Some 1) 2 [(hx "61", hx "61"); (hx "62", hx "6262")] in
  (* "a; b \n1;2;3\n" is accepted and delivers columns a and bb; "a;c\n1;2\n" is rejected *)
  run_reads ost (old_read trim_space d) 3 (old_init d (hx "613b2062200a313b323b330a"))
    = [ONode (T DocumentNode [] FNone [text_elem (hx "61") (hx "31"); text_elem (hx "6262") (hx "32")]); OEOF]
  /\ run_reads ost (old_read trim_space d) 3 (old_init d (hx "613b630a313b320a")) = [OFatal]
  (* header a;b followed by a stray quote and x, and "a"x;b : the decoder fails on the header line *)
  /\ run_reads ost (old_read trim_space d) 9 (old_init d (hx "613b6222780a313b320a")) = [OFatal]
  /\ run_reads ost (old_read trim_space d) 9 (old_init d (hx "22612278" ++ hx "3b620a313b320a")) = [OFatal].
Proof. vm_compute. auto 6. Qed.

(* ---- csv2 ---------------------------------------------------------------------------------------------
   csv2_column_fidelity, at the level of the record reader (flatfile.RecReader) and for every
   declaration, every input and every sequence of calls a hierarchy reader can make:
   - [rep s rows]: the reader-owned records slice + each line's (recordStart, recordNum) denote
     exactly the rows read and not yet consumed; preserved by readLine (appends the record
     encoding/csv returned), popFront (drops the first n rows, shifts the rest), matchLine (sees the
     row joined by the delimiter; the raw cache is invisible); a column value is field `index` of
     its row or ""; no slice index is out of range;
   - a rows based ReadAndMatch delivers node_spec of the next n rows, a header/footer based one
     node_spec of the rows from the header row to the first row matching the footer, and consumes
     exactly those rows (node_spec: per declared column, in declaration order, field `index` of the
     first row selected by line_index / line_pattern, "" beyond the row, absent if no row is selected);
   - over any call sequence the delivered nodes are node_spec of consecutive segments of the record
     stream of the input and their concatenation is exactly the consumed prefix (input order, nothing
     skipped, nothing delivered twice), and no call panics.
   Not covered here: which calls the hierarchy reader makes (C05). *)
Theorem csv2_column_fidelity_rows : forall re_match comma delim d n s rows t s',
  rep delim s rows -> q_shape d = Rows n ->
  read_and_match2 re_match comma delim d true s = (Ok (true, Some t), s') ->
  exists more, t = node_spec re_match delim d (firstn n (rows ++ more))
               /\ rep delim s' (skipn n (rows ++ more)).
Proof. exact csv2_rows_record_proof. Qed.

Theorem csv2_column_fidelity_header_footer : forall re_match comma delim d header footer s rows t s',
  rep delim s rows -> q_shape d = HeaderFooter header footer ->
  read_and_match2 re_match comma delim d true s = (Ok (true, Some t), s') ->
  exists more j row0,
    nth_error (rows ++ more) 0 = Some row0 /\ re_match header (join delim row0) = true
    /\ first_footer re_match delim footer (rows ++ more) 0 j
    /\ t = node_spec re_match delim d (firstn (S j) (rows ++ more))
    /\ rep delim s' (skipn (S j) (rows ++ more)).
Proof. exact csv2_hf_record_proof. Qed.

Theorem csv2_delivery_order : forall re_match comma delim replace input ops,
  let s0 := csv2_init replace input in
  let '(es, dls, s') := run2 re_match comma delim s0 ops in
  exists all segs k,
    stream comma (s_c s0) (s_c s') all /\ rep delim s' (skipn k all)
    /\ Forall (fun e => forall p, e <> Some (OPanic p)) es
    /\ Forall2 (fun dt seg => snd dt = node_spec re_match delim (fst dt) seg) dls segs
    /\ concat segs = firstn k all.
Proof. exact csv2_sequence_proof. Qed.

Theorem csv2_lines_to_node : forall re_match delim d n s rows,
  rep delim s rows -> n <= length rows ->
  exists s', take_record2 re_match delim d n true s
             = (Ok (true, Some (node_spec re_match delim d (firstn n rows))), s')
             /\ rep delim s' (skipn n rows) /\ s_c s' = s_c s.
Proof. exact take_record2_rep. Qed.

Theorem csv2_readline_appends : forall delim comma s rows, rep delim s rows ->
  match csv_next comma (s_c s) with
  | (CRec rec, c') => exists s', c2_readline comma s = (Ok true, s') /\ rep delim s' (rows ++ [rec]) /\ s_c s' = c'
  | (CEOF, c') => exists s', c2_readline comma s = (Ok false, s') /\ rep delim s' rows /\ s_c s' = c'
  | (_, c') => exists o s', c2_readline comma s = (Err o, s') /\ (o = OFatal \/ o = OFuel) /\ rep delim s' rows
  end.
Proof. exact (fun delim comma => c2_readline_rep comma delim). Qed.

Theorem csv2_pop_front : forall delim s rows n, rep delim s rows -> n <= length rows ->
  exists s', pop_front2 n s = (Ok tt, s') /\ rep delim s' (skipn n rows) /\ s_c s' = s_c s.
Proof. exact pop_front2_rep. Qed.

Theorem csv2_column_value : forall delim s rows i l row c, rep delim s rows ->
  nth_error (s_lines s) i = Some l -> nth_error rows i = Some row ->
  col_value2 c l (s_records s) =
  Ok (if (k_index c <? 1) || (length row <? k_index c) then [] else nth (k_index c - 1) row []).
Proof. exact col_value2_rep. Qed.

Theorem csv2_match_line : forall re_match delim p s rows i row,
  rep delim s rows -> nth_error rows i = Some row ->
  exists s', match_line re_match delim p i s = (Ok (re_match p (join delim row)), s')
             /\ rep delim s' rows /\ s_c s' = s_c s.
Proof. exact match_line_rep. Qed.

Example csv2_nonvacuous :
  (* two buffered rows [a,b] [c]; pop one; the remaining line is re-based to offset 0; a two-row
     record with columns (index 2, line 1) and (index 2, line 2) reads "b" and "" *)
  let s := mkS2 (mkC [] 2) [mkL2 0 2 []; mkL2 2 1 []] [hx "61"; hx "62"; hx "63"] in
  let d := mkRec2 (hx "72") (Rows 2) true 0 None
                  [mkCol2 (hx "78") 2 (Some 1) None; mkCol2 (hx "79") 2 (Some 2) None] in
  rep (hx "2c") s [[hx "61"; hx "62"]; [hx "63"]]
  /\ fst (pop_front2 1 s) = Ok tt
  /\ s_lines (snd (pop_front2 1 s)) = [mkL2 0 1 []]
  /\ fst (read_and_match2 pat_match 44%N (hx "2c") d true s)
     = Ok (true, Some (T ElementNode (hx "72") FNone [text_elem (hx "78") (hx "62"); text_elem (hx "79") []])).
Proof. vm_compute. auto 10. Qed.

(* ---- fixedlength2: no stale buffer reference (upstream issue 213) ------------------------------------ *)
(* for every input, every regexp behaviour, every sequence of RecReader calls - MoreUnprocessedData
   and ReadAndMatch with any declaration (rows based with any row count, header/footer based) and
   any createIDR flag - no call reads a line through a reference into an older generation of the
   bufio buffer, and no slice index is out of range. *)
Theorem fixed2_no_poison : forall re_match input ops,
  Forall (fun o => o <> Some OPoison /\ forall k, o <> Some (OPanic k))
         (rr_run re_match (f2_init input) ops).
Proof. exact fixed2_no_poison_proof. Qed.

(* ---- old fixed-length reader ------------------------------------------------------------------------
   lines_from inp ls rest: ls are the next non-empty lines of inp (empty lines skipped), rest is
   what follows.  kids_spec cols ls: line by line, every still-missing column whose FIRST matching
   line (line_pattern; no pattern = any line) it is, as the rune slice of that line - so a column
   holds the text of the first line of the envelope that its pattern selects, a column no line
   selects is absent.  For every declaration, every input, every regexp behaviour: *)
Theorem fixed1_rows_read : forall re_match e tl inp ls rest k,
  e_hf e = None -> lines_from inp ls rest -> length ls = e_rows e ->
  f1_read re_match (S k) (e :: tl) (mkF1 inp 0)
  = (ONode (T ElementNode (e_name e) FNone (kids_spec re_match (undone (e_cols e)) ls)), mkF1 rest 0).
Proof. exact fixed1_rows_read_proof. Qed.

(* "first matching line wins" (columnsDone): a declared column over the lines of an envelope appears
   at most once and holds the rune slice of the FIRST line its line_pattern matches; lines after it,
   matching or not, do not change it.  kids_spec is the same fact for a whole column list. *)
Theorem fixed1_first_matching_line_wins : forall re_match c ls,
  kids_run re_match [(c, false)] ls =
  match first_match re_match c ls with
  | Some (_, l) => [mk1 c l]
  | None => []
  end.
Proof. exact first_matching_line_wins_proof. Qed.

Theorem fixed1_columns_by_first_match : forall re_match ls cols,
  kids_run re_match cols ls = kids_spec re_match cols ls.
Proof. exact kids_run_spec. Qed.

(* by_header_footer: the envelope is the first one at or after the reader's envelope index whose
   header matches the line (fixed1_find_env), its lines run to the first line matching the footer
   (hf_lines); a not_target envelope is consumed and the Read goes on *)
Theorem fixed1_hf_read : forall re_match envs e0 tl s l0 r0 e h footer ls rest k,
  envs = e0 :: tl -> e_hf e0 <> None ->
  f1_readline (S (length (g_in s))) (g_in s) = Some (Some l0, r0) ->
  let i := find_env re_match (S (length envs)) envs (g_env s) l0 in
  nth_error envs i = Some e -> e_hf e = Some (h, footer) ->
  hf_lines re_match footer l0 r0 ls rest ->
  f1_read re_match (S k) envs s =
  if e_not_target e then f1_read re_match k envs (mkF1 rest i)
  else (ONode (T ElementNode (e_name e) FNone (kids_spec re_match (undone (e_cols e)) (l0 :: ls))), mkF1 rest i).
Proof. exact fixed1_hf_read_proof. Qed.

Theorem fixed1_find_env : forall re_match envs line fuel i, length envs - i < fuel ->
  (forall e, In e envs -> e_hf e <> None) ->
  let j := find_env re_match fuel envs i line in
  i <= j /\
  (forall j' e h f, i <= j' < j -> nth_error envs j' = Some e -> e_hf e = Some (h, f) -> re_match h line = false) /\
  match nth_error envs j with
  | Some e => exists h f, e_hf e = Some (h, f) /\ re_match h line = true
  | None => True
  end.
Proof. exact find_env_spec. Qed.

Theorem fixed1_hf_unmatched : forall re_match envs e0 tl s l0 r0 k,
  envs = e0 :: tl -> e_hf e0 <> None ->
  f1_readline (S (length (g_in s))) (g_in s) = Some (Some l0, r0) ->
  nth_error envs (find_env re_match (S (length envs)) envs (g_env s) l0) = None ->
  fst (f1_read re_match (S k) envs s) = OEOF.
Proof. exact fixed1_hf_unmatched_proof. Qed.

Example fixed1_nonvacuous :
  (* by_rows 2; column a = runes [1,3) of the line starting with "T2", column b = runes [2,4) of any line *)
  let e := mkEnv1 (hx "31") None 2 false
             [mkFCol (hx "61") 1 2 None (Some (PPrefix (hx "5432"))); mkFCol (hx "62") 2 2 None None] in
  lines_from (hx "0a543178790a5432c3a97a0a71") [hx "54317879"; hx "5432c3a97a"] (hx "71")
  /\ f1_read pat_match 1 [e] (mkF1 (hx "0a543178790a5432c3a97a0a71") 0)
     = (ONode (T ElementNode (hx "31") FNone [text_elem (hx "62") (hx "3178"); text_elem (hx "61") (hx "5432")]),
        mkF1 (hx "71") 0).
Proof.
  split; [|vm_compute; reflexivity].
  eapply lf_cons; [vm_compute; reflexivity|]. eapply lf_cons; [vm_compute; reflexivity|]. constructor.
Qed.

(* fixedlength2 column fidelity.  For every input, every regexp behaviour and every sequence of
   RecReader calls from a fresh reader: the non-empty lines ByteReadLine returns form a stream
   (streamF); the buffer holds exactly the lines read and not yet consumed (viewF); every delivered
   envelope node is node_specF of a segment of the stream - per declared column, in declaration
   order, the rune slice [start_pos, start_pos+length) (fixed_slice_spec) of the first line of the
   segment selected by line_index / line_pattern, absent if none is - the segment is a well-formed
   envelope of its declaration (seg_ok: `rows` lines, or from a line matching the header to the
   first line matching the footer), consecutive deliveries take consecutive segments and together
   they are exactly the consumed prefix of the stream (input order, nothing skipped or delivered
   twice); no call reads a stale reference or panics. *)
Theorem fixed2_column_fidelity : forall re_match input ops,
  let '(es, dls, s') := runF re_match (f2_init input) ops in
  exists all segs k,
    streamF input (h_in s') all /\ viewF s' = skipn k all
    /\ Forall ok_out es
    /\ Forall2 (fun dt seg => snd dt = node_specF re_match (fst dt) seg /\ seg_ok re_match (fst dt) seg) dls segs
    /\ concat segs = firstn k all.
Proof. exact fixed2_sequence_proof. Qed.

Example fixed2_nonvacuous :
  let d := mkEnv2 (hx "72") (HeaderFooter (PPrefix (hx "42")) (Some (PPrefix (hx "45")))) true 0 None
                  [mkFCol (hx "63") 2 2 (Some 2) None] in
  (* B1 / xyz / E : the footer is found two reads after the header line was handed out *)
  rr_run pat_match (f2_init (hx "42310a78797a0a450a")) [OpMore; OpReadAndMatch d true; OpMore] = [None; None; None]
  /\ fst (read_and_matchF pat_match d true (f2_init (hx "42310a78797a0a450a")))
     = Ok (true, Some (T ElementNode (hx "72") FNone [text_elem (hx "63") (hx "797a")])).
Proof. vm_compute. auto. Qed.

(* ---- the line reader (go-corelib ios.ByteReadLine over a 4096-byte bufio.Reader) ---------------------- *)
(* every LF-terminated line, of ANY length (fragments of the buffer size are joined, a CR at the end
   of a fragment is put back so that CRLF straddling a fragment boundary is still recognised): the
   text up to the LF without a CR directly before it *)
Theorem read_line_terminated : forall T x r,
  split_lf T = (x, Some r) -> read_line T = RLOk (strip_last CR x) r.
Proof. exact read_line_terminated_proof. Qed.

(* Full statement: for every text, read_line = ideal_read_line.  FALSE on the unchanged tree (known
   finding F22, fixed_last_line_refuted); proved under the named guard f22_guard: the text contains
   an LF, or the unterminated last line is shorter than the buffer. *)
Theorem read_line_ideal : forall T, f22_guard T -> read_line T = ideal_read_line T.
Proof. exact read_line_ideal_proof. Qed.

(* F22 exactly, for text without CR: an unterminated last line is lost iff its length is a positive
   multiple of the buffer size *)
Theorem read_line_unterminated_exact : forall x,
  mem_byte LF x = false -> mem_byte CR x = false -> x <> [] ->
  read_line x = if Nat.eqb (length x mod BUFSZ) 0 then RLEof else RLOk x [].
Proof. exact read_line_unterminated_proof. Qed.

Theorem fixed_last_line_refuted :
  exists T, T <> [] /\ read_line T = RLEof /\ ideal_read_line T = RLOk T [].
Proof. exact fixed_last_line_refuted_proof. Qed.

Example f22_guard_nonvacuous :
  f22_guard (hx "61620d0a63") /\ read_line (hx "61620d0a63") = RLOk (hx "6162") (hx "63")
  (* a 4097-byte line "a...a\r" + LF: the CR is the first byte of the second fragment *)
  /\ read_line (repeat x61 4096 ++ hx "0d0a62") = RLOk (repeat x61 4096) (hx "62").
Proof.
  split; [|split; vm_compute; reflexivity]. unfold f22_guard.
  replace (split_lf (hx "61620d0a63")) with (hx "61620d", Some (hx "63")) by (vm_compute; reflexivity).
  exact I.
Qed.
