(* C19 Date-time functions preserve the instant and invert each other.
   Statements only; proofs in Proofs/Time.v.  Instants are (Unix seconds, nanoseconds); "years
   1..9999" is stated by the explicit second bounds
     MIN_SEC = -62135596800 (0001-01-01T00:00:00Z)   MAX_SEC = 253402300799 (9999-12-31T23:59:59Z).
   to_epoch / from_epoch are the Go expressions of customfuncs/datetime.go with int64
   wrap-around written out; the theorems show no wrap occurs in that range.  The zone theorems
   hold for EVERY zone behaviour (off_of_instant, off_of_wall are universally quantified). *)
From Coq Require Import ZArith List Bool String.
Import ListNotations.
From OV Require Import Model.Int64 Gen.DateTime Model.Time Proofs.Time.
Local Open Scope Z_scope.

Theorem year_bounds_are_years_1_9999 :
  MIN_SEC = -62135596800 /\ MAX_SEC = 253402300799 /\
  MIN_SEC = days_from_civil 1 1 1 * 86400 /\ MAX_SEC = days_from_civil 10000 1 1 * 86400 - 1.
Proof. split; [reflexivity|]. split; [reflexivity|]. exact year_bounds. Qed.

(* ---- dateTimeToEpoch returns the Unix time in the requested unit --------------------------- *)
Theorem epoch_seconds_exact : forall t, to_epoch USecond t = sec t.
Proof. exact epoch_seconds_exact. Qed.

Theorem epoch_millis_exact : forall t,
  -62135596800 <= sec t <= 253402300799 -> 0 <= nsec t < 1000000000 ->
  to_epoch UMillisecond t = sec t * 1000 + nsec t / 1000000
  /\ to_epoch UMillisecond t = (sec t * 1000000000 + nsec t) / 1000000.
Proof.
  intros t Hs Hn. split.
  - exact (epoch_millis_exact t (conj Hs Hn)).
  - exact (epoch_millis_is_floor t (conj Hs Hn)).
Qed.

(* ---- epochToDateTimeRFC3339's instant: exact for every count of that range, negative too --- *)
Theorem from_epoch_exact : forall n,
  from_epoch USecond n = mkI n 0 /\
  (-62135596800 * 1000 <= n <= 253402300799 * 1000 + 999 ->
   from_epoch UMillisecond n = mkI (n / 1000) (n mod 1000 * 1000000)
   /\ sec (from_epoch UMillisecond n) * 1000000000 + nsec (from_epoch UMillisecond n) = n * 1000000
   /\ 0 <= nsec (from_epoch UMillisecond n) < 1000000000).
Proof.
  intro n. split; [reflexivity|]. intro H.
  split; [exact (from_epoch_millis_exact n H)|]. exact (from_epoch_millis_value n H).
Qed.

(* ---- the two conversions invert each other ------------------------------------------------------ *)
(* What the Go code does for pre-1970 instants: milliseconds are floor(ns / 10^6) (sec is
   floored by time.Time, the fraction is non-negative), n/1000 and n%1000 truncate toward zero,
   and time.Unix carries the negative remainder back - so the round trip is exact: the result
   is the instant truncated toward the past to the unit, for negative instants as well. *)
Theorem epoch_roundtrip : forall u t,
  -62135596800 <= sec t <= 253402300799 -> 0 <= nsec t < 1000000000 ->
  from_epoch u (to_epoch u t) = trunc_unit u t.
Proof. intros u t Hs Hn. exact (epoch_roundtrip u t (conj Hs Hn)). Qed.

Theorem epoch_roundtrip_inverse : forall u n,
  match u with
  | USecond => True
  | UMillisecond => -62135596800 * 1000 <= n <= 253402300799 * 1000 + 999
  end ->
  to_epoch u (from_epoch u n) = n.
Proof. exact epoch_roundtrip_inv. Qed.

Section C19Zones.
  Variable off_of_instant : zone -> Z -> Z.
  Variable off_of_wall : zone -> Z -> Z.
  Notation parse_date_time := (parse_date_time off_of_instant off_of_wall).
  Notation wall_sec := (wall_sec off_of_instant).
  Notation off_at := (off_at off_of_instant).

  (* ---- input with zone: the instant is kept for every from/to combination, fromTZ ignored
     (even an unloadable fromTZ), the result carries toTZ if given ---- *)
  Theorem tz_logic_instant : forall t fromTZ toTZ, toTZ <> TzBad ->
    parse_date_time (POk t true) fromTZ toTZ
      = Some (mkG (g_sec t) (g_nsec t) (match toTZ with TzZone z => LZone z | _ => g_loc t end), true)
    /\ parse_date_time (POk t true) fromTZ toTZ = parse_date_time (POk t true) TzEmpty toTZ.
  Proof.
    intros t f to H. split; [exact (tz_logic_instant off_of_instant off_of_wall t f to H) | reflexivity].
  Qed.

  (* ---- no zone anywhere: same time value, printed as its wall reading without offset ---- *)
  Theorem tz_logic_wall : forall t,
    parse_date_time (POk t false) TzEmpty TzEmpty = Some (t, false)
    /\ date_time_to_rfc3339 off_of_instant off_of_wall (Some (POk t false)) TzEmpty TzEmpty
       = RVal (ObsWall (wall_sec t)).
  Proof. intro t. split; reflexivity. Qed.

  (* ---- no zone in the input, fromTZ and/or toTZ given: the reading is bound to fromTZ (toTZ
     if there is no fromTZ) as time.Date binds it, then shown in toTZ; the reading itself is
     kept whenever time.Date's offset is the one in force at the instant it returns (always,
     except for readings inside a forward clock change) ---- *)
  Theorem tz_logic_bind : forall t zf zt,
    let i := wall_sec t - off_of_wall zf (wall_sec t) in
    parse_date_time (POk t false) (TzZone zf) TzEmpty = Some (mkG i (g_nsec t) (LZone zf), true)
    /\ parse_date_time (POk t false) TzEmpty (TzZone zf) = Some (mkG i (g_nsec t) (LZone zf), true)
    /\ parse_date_time (POk t false) (TzZone zf) (TzZone zt) = Some (mkG i (g_nsec t) (LZone zt), true)
    /\ (off_of_instant zf i = off_of_wall zf (wall_sec t) ->
        wall_sec (mkG i (g_nsec t) (LZone zf)) = wall_sec t).
  Proof.
    intros t zf zt i. repeat split.
    exact (overwrite_keeps_wall off_of_instant off_of_wall t zf).
  Qed.

  (* ---- parseDateTime as a decision table.  parse_date_time is the transcription of the code
     over the two zone steps read from the source (Gen/DateTime.v: guards, OverwriteTZ/ConvertTZ,
     where hasTZ is set); decide/interp is what the function's comment promises, for every
     combination of: zone in the input or not x fromTZ / toTZ empty, blank, unloadable, a zone.
     For dateTimeLayoutToRFC3339 with a layout the layoutTZ flag alone plays the role of "zone in
     the input", whatever the layout carried (offset, abbreviation, nothing). ---- *)
  Theorem parse_date_time_is_decision_table : forall t hasTZ fromTZ toTZ,
    parse_date_time (POk t hasTZ) fromTZ toTZ
    = interp off_of_instant off_of_wall t (decide hasTZ fromTZ toTZ).
  Proof. exact (parse_date_time_table off_of_instant off_of_wall). Qed.

  Theorem layout_path_decision_table : forall t parser_flag b fromTZ toTZ,
    date_time_layout_to_rfc3339 off_of_instant off_of_wall (Some (POk t parser_flag)) false (LtzBool b) fromTZ toTZ
      = match interp off_of_instant off_of_wall t (decide b fromTZ toTZ) with
        | None => RError
        | Some (t', h') => RVal (rfc3339 off_of_instant t' h')
        end
    /\ date_time_layout_to_rfc3339 off_of_instant off_of_wall (Some (POk t parser_flag)) false LtzEmpty fromTZ toTZ
      = date_time_layout_to_rfc3339 off_of_instant off_of_wall (Some (POk t parser_flag)) false (LtzBool false) fromTZ toTZ
    /\ date_time_to_rfc3339 off_of_instant off_of_wall (Some (POk t parser_flag)) fromTZ toTZ
      = match interp off_of_instant off_of_wall t (decide parser_flag fromTZ toTZ) with
        | None => RError
        | Some (t', h') => RVal (rfc3339 off_of_instant t' h')
        end.
  Proof.
    intros t h b f to. split; [|split].
    - exact (layout_table off_of_instant off_of_wall t h b f to).
    - reflexivity.
    - exact (smart_table off_of_instant off_of_wall t h f to).
  Qed.

  (* ---- F23 exactly: the text denotes the input instant IF AND ONLY IF the offset of the result
     zone at that instant is a whole number of minutes ---- *)
  Theorem rfc3339_same_instant_iff : forall t fromTZ toTZ o, toTZ <> TzBad ->
    date_time_to_rfc3339 off_of_instant off_of_wall (Some (POk t true)) fromTZ toTZ = RVal o ->
    (obs_instant o = Some (g_sec t)
     <-> Z.rem (off_at (match toTZ with TzZone z => LZone z | _ => g_loc t end) (g_sec t)) 60 = 0).
  Proof.
    intros t f to o Hto H. exact (to_rfc3339_instant_iff off_of_instant off_of_wall t f to Hto o H).
  Qed.

  (* ---- dateTimeToRFC3339 / dateTimeLayoutToRFC3339 on input with zone: the printed wall
     reading is the instant's reading in the result zone; the instant read back from the text
     is the input instant (to the second) when that zone's offset is a whole number of minutes
     (guard named minute_aligned; see rfc3339_submin_refuted) ---- *)
  Theorem rfc3339_same_instant : forall t h fromTZ toTZ, toTZ <> TzBad ->
    let l := match toTZ with TzZone z => LZone z | _ => g_loc t end in
    (exists o, date_time_to_rfc3339 off_of_instant off_of_wall (Some (POk t true)) fromTZ toTZ = RVal o
       /\ obs_wall o = g_sec t + off_at l (g_sec t)
       /\ (Z.rem (off_at l (g_sec t)) 60 = 0 -> obs_instant o = Some (g_sec t)))
    /\ (exists o, date_time_layout_to_rfc3339 off_of_instant off_of_wall (Some (POk t h)) false (LtzBool true) fromTZ toTZ = RVal o
       /\ obs_wall o = g_sec t + off_at l (g_sec t)
       /\ (Z.rem (off_at l (g_sec t)) 60 = 0 -> obs_instant o = Some (g_sec t))).
  Proof.
    intros t h f to H l. split.
    - exact (to_rfc3339_zoned off_of_instant off_of_wall t f to H).
    - exact (layout_to_rfc3339_zoned off_of_instant off_of_wall t h f to H).
  Qed.

  (* ---- the same WITHOUT the guard (what remains true inside known finding F23): the text is
     the instant's reading in the result zone followed by the zone offset with its seconds part
     cut off toward zero - so sign, hours and minutes are the offset's own - and the instant the
     text denotes differs from the input instant by exactly that seconds part, i.e. by less than
     60 s.  Nothing more than the seconds part is ever lost. ---- *)
  Theorem rfc3339_within_seconds_part : forall t fromTZ toTZ, toTZ <> TzBad ->
    let off := off_at (match toTZ with TzZone z => LZone z | _ => g_loc t end) (g_sec t) in
    date_time_to_rfc3339 off_of_instant off_of_wall (Some (POk t true)) fromTZ toTZ
      = RVal (ObsZoned (g_sec t + off) (off - Z.rem off 60))
    /\ obs_instant (ObsZoned (g_sec t + off) (off - Z.rem off 60)) = Some (g_sec t + Z.rem off 60)
    /\ Z.abs (Z.rem off 60) < 60
    /\ (0 <= off -> 0 <= off - Z.rem off 60 <= off) /\ (off <= 0 -> off <= off - Z.rem off 60 <= 0).
  Proof. exact (to_rfc3339_zoned_exact off_of_instant off_of_wall). Qed.

  Theorem epoch_to_date_time_text : forall n u tz l,
    match tz with [] => l = LUTC | [Some z] => l = LZone z | _ => False end ->
    let s := sec (from_epoch u n) in
    let off := off_at l s in
    epoch_to_date_time off_of_instant (Some (Some n)) (Some u) tz
      = RVal (ObsZoned (s + off) (off - Z.rem off 60)).
  Proof. exact (epoch_to_date_time_exact off_of_instant). Qed.

  (* ---- dateTimeToEpoch on input with zone is the exact Unix time, fromTZ ignored; and
     epochToDateTimeRFC3339 applied to its result denotes the same instant (to the second) ---- *)
  Theorem epoch_of_zoned_input : forall t fromTZ u,
    date_time_to_epoch off_of_instant off_of_wall (Some (POk t true)) fromTZ (Some u)
    = RVal (to_epoch u (mkI (g_sec t) (g_nsec t))).
  Proof. exact (to_epoch_zoned off_of_instant off_of_wall). Qed.

  Theorem epoch_functions_invert : forall t fromTZ u tz l,
    -62135596800 <= g_sec t <= 253402300799 -> 0 <= g_nsec t < 1000000000 ->
    match tz with [] => l = LUTC | [Some z] => l = LZone z | _ => False end ->
    Z.rem (off_at l (g_sec t)) 60 = 0 ->
    exists n o,
      date_time_to_epoch off_of_instant off_of_wall (Some (POk t true)) fromTZ (Some u) = RVal n
      /\ epoch_to_date_time off_of_instant (Some (Some n)) (Some u) tz = RVal o
      /\ obs_instant o = Some (g_sec t).
  Proof.
    intros t f u tz l Hs Hn Htz Hal.
    exact (epoch_inverts off_of_instant off_of_wall t f u tz l (conj Hs Hn) Htz Hal).
  Qed.

  (* ---- empty input yields empty output; unparsable input yields an error ---- *)
  (* For dateTimeLayoutToRFC3339 the proof forces the guard: with a layout and a layoutTZ that
     is not a boolean the error comes first (layout_empty_input_bad_flag below). *)
  Theorem empty_in_empty_out : forall fromTZ toTZ u layout_empty layoutTZ tz,
    date_time_to_rfc3339 off_of_instant off_of_wall None fromTZ toTZ = REmpty
    /\ date_time_to_epoch off_of_instant off_of_wall None fromTZ u = REmpty
    /\ epoch_to_date_time off_of_instant None u tz = REmpty
    /\ ((layout_empty = true \/ layoutTZ <> LtzBad) ->
        date_time_layout_to_rfc3339 off_of_instant off_of_wall None layout_empty layoutTZ fromTZ toTZ = REmpty).
  Proof. exact (empty_in_empty_out off_of_instant off_of_wall). Qed.

  Theorem unparsable_is_error : forall fromTZ toTZ u layout_empty layoutTZ tz,
    date_time_to_rfc3339 off_of_instant off_of_wall (Some PErr) fromTZ toTZ = RError
    /\ date_time_to_epoch off_of_instant off_of_wall (Some PErr) fromTZ u = RError
    /\ epoch_to_date_time off_of_instant (Some None) u tz = RError
    /\ date_time_layout_to_rfc3339 off_of_instant off_of_wall (Some PErr) layout_empty layoutTZ fromTZ toTZ = RError.
  Proof. exact (unparsable_is_error off_of_instant off_of_wall). Qed.
End C19Zones.

(* ---- "unparsable input yields an error" at Transform level ----------------------------------- *)
(* Whatever the other members of the object are (lenient twins with the very same arguments
   before or after it, members coming from templates), a strict member (no ignore_error) whose
   function is given unparsable input fails the record - for each of the four functions, every
   zone behaviour and every zone / unit / layout argument; and a record without such a member is
   delivered, each member present exactly when its own call returns a non-empty value. *)
Theorem unparsable_strict_member_fails_record :
  forall off_of_instant off_of_wall fromTZ toTZ u layout_empty layoutTZ tz ms1 ms2,
    record_outcome (ms1 ++ (false, res_kind (date_time_to_rfc3339 off_of_instant off_of_wall (Some PErr) fromTZ toTZ)) :: ms2) = None
    /\ record_outcome (ms1 ++ (false, res_kind (date_time_to_epoch off_of_instant off_of_wall (Some PErr) fromTZ u)) :: ms2) = None
    /\ record_outcome (ms1 ++ (false, res_kind (epoch_to_date_time off_of_instant (Some None) u tz)) :: ms2) = None
    /\ record_outcome (ms1 ++ (false, res_kind (date_time_layout_to_rfc3339 off_of_instant off_of_wall (Some PErr) layout_empty layoutTZ fromTZ toTZ)) :: ms2) = None.
Proof.
  intros oi ow f t u le ltzv tz ms1 ms2.
  destruct (Proofs.Time.unparsable_is_error oi ow f t u le ltzv tz) as (E1 & E2 & E3 & E4).
  rewrite E1, E2, E3, E4. simpl. repeat split; apply strict_error_fails_record.
Qed.

Theorem lenient_or_parsable_record_delivered : forall ms,
  (forall ig r, In (ig, r) ms -> ig = true \/ r <> RError) ->
  record_outcome ms = Some (map (fun m => match snd m with RVal _ => true | _ => false end) ms).
Proof. exact record_outcome_some. Qed.

(* ---- what the extractor read from customfuncs/datetime.go and the theorems above rest on:
   the unit strings (anything else is an error), the default zone of epochToDateTimeRFC3339;
   to_epoch / from_epoch ARE the extracted expressions (Gen/DateTime.v to_epoch_expr,
   from_epoch_expr), so epoch_millis_exact, from_epoch_exact and epoch_roundtrip are statements
   about the arithmetic that is in the source now. ---- *)
Theorem extracted_epoch_units :
  (unit_of_string "SECOND" = Some USecond /\ unit_of_string "MILLISECOND" = Some UMillisecond
   /\ unit_of_string "" = None /\ unit_of_string "second" = None /\ unit_of_string "MINUTE" = None
   /\ epoch_default_zone = "UTC")%string
  /\ (forall s, unit_of_string s = Some USecond /\ s = "SECOND"%string
              \/ unit_of_string s = Some UMillisecond /\ s = "MILLISECOND"%string
              \/ unit_of_string s = None)
  /\ (forall u t, to_epoch u t = to_epoch_expr u t) /\ (forall u n, from_epoch u n = from_epoch_expr u n).
Proof.
  split; [exact extracted_units|]. split; [exact unit_of_string_total|]. split; reflexivity.
Qed.

(* ---- the full statement "the text denotes the same instant in every IANA zone" is false ------- *)
(* Known finding (sub-minute zone offsets): RFC3339 text prints the offset in whole minutes, so
   in a zone whose offset has a seconds part the instant read back differs.  Witness: the
   instant 1800-01-01T04:56:02Z shown in America/New_York (local mean time -4:56:02) is
   printed 1800-01-01T00:00:00-04:56, which is 1800-01-01T04:56:00Z. *)
Theorem rfc3339_same_instant_refuted :
  exists (off_of_instant : zone -> Z -> Z) (t : gotime),
    obs_instant (rfc3339 off_of_instant t true) <> Some (g_sec t).
Proof. exact rfc3339_submin_refuted. Qed.

(* ---- examples / non-vacuity ---------------------------------------------------------------------- *)
(* Regression witness for F6b: the expression before the fix, t.UnixNano()/1e6 with int64
   wrap-around, on 9999-12-31T00:00:00Z; the repaired expression gives the right count. *)
Example epoch_millis_refuted_old :
  old_to_epoch_ms (mkI 253402214400 0) = -4852202631933 /\
  to_epoch UMillisecond (mkI 253402214400 0) = 253402214400000.
Proof. exact epoch_millis_refuted_old. Qed.

Example epoch_from_millis_refuted_old :
  old_from_epoch_ms 253402214400000 = mkI (-4852202632) 66277376 /\
  from_epoch UMillisecond 253402214400000 = mkI 253402214400 0.
Proof. exact epoch_from_millis_refuted_old. Qed.

(* a pre-1970 instant with a fraction: 1969-12-31T23:59:58.5Z <-> -1500 ms *)
Example epoch_negative_instance :
  to_epoch UMillisecond (mkI (-2) 500000000) = -1500 /\
  from_epoch UMillisecond (-1500) = mkI (-2) 500000000 /\
  from_epoch UMillisecond (to_epoch UMillisecond (mkI (-2) 500999999)) = mkI (-2) 500000000.
Proof. repeat split; vm_compute; reflexivity. Qed.

(* both ends of the range satisfy the hypotheses *)
Example epoch_range_ends :
  to_epoch UMillisecond (mkI (-62135596800) 0) = -62135596800000 /\
  to_epoch UMillisecond (mkI 253402300799 999999999) = 253402300799999 /\
  from_epoch UMillisecond 253402300799999 = mkI 253402300799 999000000.
Proof. repeat split; vm_compute; reflexivity. Qed.

(* zone logic on a concrete zone behaviour: zone 1 is at -18000 (standard) before the instant
   1000 and -14400 after; reading 2000 is bound to zone 1 and shown in zone 2 (+3600) *)
Example tz_logic_instance :
  let oi := fun (z : zone) (s : Z) => if N.eqb z 1 then (if s <? 1000 then -18000 else -14400) else 3600 in
  let ow := fun (z : zone) (w : Z) => if N.eqb z 1 then -14400 else 3600 in
  date_time_to_rfc3339 oi ow (Some (POk (mkG 2000 7 LUTC) false)) (TzZone 1%N) (TzZone 2%N)
    = RVal (ObsZoned (2000 + 14400 + 3600) 3600)
  /\ date_time_to_rfc3339 oi ow (Some (POk (mkG 2000 7 (LFixed (-25200))) true)) (TzZone 1%N) (TzZone 2%N)
    = RVal (ObsZoned (2000 + 3600) 3600)
  /\ date_time_to_rfc3339 oi ow (Some (POk (mkG 2000 7 LUTC) false)) TzEmpty TzEmpty
    = RVal (ObsWall 2000).
Proof. repeat split; vm_compute; reflexivity. Qed.

(* Africa/Monrovia before 1972 is at -00:44:30: the text carries -00:44 (sign kept) and denotes
   an instant 30 s later than the input *)
Example negative_sub_hour_offset_instance :
  date_time_to_rfc3339 (fun _ _ => -2670) (fun _ _ => -2670) (Some (POk (mkG 63071999 0 LUTC) true)) TzEmpty (TzZone 1%N)
  = RVal (ObsZoned (63071999 - 2670) (-2640))
  /\ obs_instant (ObsZoned (63071999 - 2670) (-2640)) = Some (63071999 - 30).
Proof. split; vm_compute; reflexivity. Qed.

(* rows of the decision table *)
Example decision_table_rows :
  decide true TzBad (TzZone 2%N) = DKeep (Some 2%N) /\ decide true (TzZone 1%N) TzEmpty = DKeep None
  /\ decide false TzEmpty TzEmpty = DBare /\ decide false (TzZone 1%N) TzEmpty = DBind 1%N 1%N
  /\ decide false (TzZone 1%N) (TzZone 2%N) = DBind 1%N 2%N /\ decide false TzEmpty (TzZone 2%N) = DBind 2%N 2%N
  /\ decide false TzBlank TzEmpty = DKeep None /\ decide false TzBad TzEmpty = DError /\ decide true TzEmpty TzBad = DError.
Proof. repeat split; reflexivity. Qed.

(* a blank (non-empty, all-space) fromTZ does not bind a zone but marks the result as zoned:
   "2020-01-01T00:00:00" with fromTZ " " prints "2020-01-01T00:00:00Z" (observed on the code) *)
Example blank_from_tz_marks_zone :
  date_time_to_rfc3339 (fun _ _ => 0) (fun _ _ => 0) (Some (POk (mkG 1577836800 0 LUTC) false)) TzBlank TzEmpty
  = RVal (ObsZoned 1577836800 0).
Proof. vm_compute. reflexivity. Qed.

(* lenient twin first, strict twin second, unparsable value: the record fails *)
Example twins_instance :
  record_outcome [(true, RError); (false, RError)] = None /\
  record_outcome [(true, RError); (true, RError)] = Some [false; false] /\
  record_outcome [(true, RVal tt); (false, RVal tt)] = Some [true; true].
Proof. repeat split; reflexivity. Qed.

Example layout_empty_input_bad_flag :
  date_time_layout_to_rfc3339 (fun _ _ => 0) (fun _ _ => 0) None false LtzBad TzEmpty TzEmpty = RError.
Proof. reflexivity. Qed.
