(* C18 Declared input encodings and byte-order marks are handled transparently.
   Statements only; proofs in Proofs/Encoding.v.  [pipeline enc input] is the byte stream
   schema.go:NewTransform hands to the format reader: the stages of Gen/Encoding.v
   (pipeline_order, extracted from schema.go) run with the decoder Gen/Encoding.v's enc_map
   (extracted from header.go) selects for the parser_settings.encoding value [enc].
   All theorems quantify over every byte string. *)
From Coq Require Import List NArith Bool String.
From Coq.Strings Require Import Byte.
Import ListNotations.
From OV Require Import Base.Bytes Base.Utf8 Gen.Encoding Model.Encoding Proofs.Encoding.

(* Neither code page contains U+FEFF: no byte of an iso-8859-1 / windows-1252 input can decode
   to a byte-order mark. *)
Theorem bom_not_in_range : forall cp, cp = cp_iso8859_1 \/ cp = cp_windows1252 ->
  forall b : byte, cp b <> BOM.
Proof. exact bom_not_in_range. Qed.

(* Decoding is a bytewise homomorphism ... *)
Theorem decode_app : forall cp a b, decode cp (a ++ b) = decode cp a ++ decode cp b.
Proof. exact decode_app. Qed.

(* ... hence independent of how the input is split into reads (all encodings, all splits). *)
Theorem decode_chunk_invariant : forall e chunks,
  List.concat (map (decode_with (dec_of e)) chunks) = decode_with (dec_of e) (List.concat chunks).
Proof. exact decode_chunk_invariant. Qed.

(* The property: with encoding X the format reader sees exactly what it sees when the input is
   first converted to UTF-8 with the standard code page and utf-8 is declared; and the
   pipeline is total (the nil-func panic of WrapEncoding is unreachable for the accepted names). *)
Theorem encoding_transparent : forall (e : encoding) (input : bytes),
  pipeline (Some (enc_name e)) input = pipeline (Some "utf-8"%string) (utf8_of e input)
  /\ exists out, pipeline (Some (enc_name e)) input = Ok out.
Proof. intros e s. split; [exact (encoding_transparent e s) | exact (pipeline_total e s)]. Qed.

(* No encoding setting = utf-8. *)
Theorem encoding_default_is_utf8 : forall input,
  pipeline None input = pipeline (Some "utf-8"%string) input.
Proof. exact pipeline_default. Qed.

(* StripBOM removes one leading EF BB BF and nothing else, whatever the bytes are (including
   invalid UTF-8 and every other encoding of a first rune). *)
Theorem strip_bom_exact : forall s,
  strip_bom s = if starts_with bom_bytes s then skipn 3 s else s.
Proof. exact strip_bom_spec. Qed.

Theorem bom_stripped_once : forall s,
  pipeline (Some "utf-8"%string) (bom_bytes ++ s) = Ok s.
Proof. exact bom_stripped_once. Qed.

Theorem utf8_without_bom_untouched : forall s,
  starts_with bom_bytes s = false -> pipeline (Some "utf-8"%string) s = Ok s.
Proof. exact utf8_without_bom_untouched. Qed.

(* A mark split across reads: StripBOM reads its first rune through bufio.Reader, which keeps
   calling the source until four bytes or a full rune are buffered (model: fill_until, with
   utf8.FullRune transcribed).  For EVERY way the source cuts the stream into pieces - one byte
   at a time, the mark cut after its first or second byte, empty reads in between - the result
   is that of stripping the concatenated stream; so the pipeline result does not depend on the
   pieces in which the decoded stream arrives. *)
Theorem bom_split_across_reads : forall pieces : list bytes,
  strip_bom_pieces pieces = strip_bom (List.concat pieces).
Proof. exact strip_bom_pieces_spec. Qed.

Theorem pipeline_split_invariant : forall e input pieces,
  List.concat pieces = decode_with (dec_of e) input ->
  Ok (strip_bom_pieces pieces) = pipeline (Some (enc_name e)) input.
Proof. exact pipeline_split_invariant. Qed.

(* Under a code page the stripping stage is the identity: the result is the standard
   conversion of the whole input (input bytes EF BB BF are the three characters U+00EF U+00BB
   U+00BF, not a mark). *)
Theorem codepage_never_stripped : forall e input, e <> Utf8 ->
  pipeline (Some (enc_name e)) input = Ok (utf8_of e input).
Proof. exact codepage_never_stripped. Qed.

(* Every byte of a code-page input becomes exactly one rune - the code page's - in order: the
   decoded stream, read as UTF-8 (Go's range / DecodeRune), has as many runes as the input has
   bytes; it is well-formed UTF-8; no byte is dropped anywhere, in particular not the last one
   (whatever its value: 0x1A, 0x00, an unassigned byte). *)
Theorem decode_one_rune_per_byte : forall cp, cp = cp_iso8859_1 \/ cp = cp_windows1252 ->
  forall s : bytes,
    runes (decode cp s) = map cp s
    /\ rune_count (decode cp s) = List.length s
    /\ utf8_valid (decode cp s) = true
    /\ (List.length s <= List.length (decode cp s))%nat.
Proof.
  intros cp Hc s. split; [exact (runes_decode cp Hc s)|]. split; [exact (rune_count_decode cp Hc s)|].
  split; [exact (decode_utf8_valid cp Hc s) | exact (decode_length_ge cp Hc s)].
Qed.

Theorem decode_last_byte_kept : forall cp, cp = cp_iso8859_1 \/ cp = cp_windows1252 ->
  forall (s : bytes) (b : byte),
    decode cp (s ++ [b]) = decode cp s ++ dec_byte cp b /\ dec_byte cp b <> []
    /\ forall rest, decode_rune (dec_byte cp b ++ rest) = (cp b, List.length (dec_byte cp b)).
Proof.
  intros cp Hc s b. destruct (decode_snoc cp Hc s b) as [H1 H2].
  split; [exact H1|]. split; [exact H2 | exact (dec_byte_one_rune cp Hc b)].
Qed.

(* windows-1252: exactly the five bytes the code page leaves unassigned (81 8D 8F 90 9D) decode
   to U+FFFD, as the three bytes EF BF BD; every other byte to the rune of CP1252.TXT. *)
Theorem windows1252_unassigned_bytes : forall b : byte,
  (cp_windows1252 b = RuneError <-> cp1252_unassigned b = true)
  /\ (cp1252_unassigned b = true -> dec_byte cp_windows1252 b = [xef; xbf; xbd]).
Proof. exact windows1252_unassigned. Qed.

(* The utf-8 path (declared, absent, or the fallback) decodes nothing: for EVERY byte string -
   ill-formed sequences, U+FFFD written out as EF BF BD, anything - the format reader receives
   the input itself minus at most one leading mark. *)
Theorem utf8_path_is_identity : forall s : bytes,
  decode_with DecIdentity s = s
  /\ pipeline (Some "utf-8"%string) s = Ok (strip_bom s) /\ pipeline None s = Ok (strip_bom s)
  /\ exists p, s = p ++ strip_bom s /\ (p = [] \/ p = bom_bytes).
Proof.
  intro s. destruct (utf8_path_identity s) as (H1 & H2 & H3).
  split; [exact H1|]. split; [exact H2|]. split; [exact H3 | exact (strip_bom_suffix s)].
Qed.

(* A leading mark never reaches the format reader (so it cannot end up in the first value or
   name) unless the utf-8 input literally started with two marks. *)
Theorem leading_bom_only_if_doubled : forall e input r,
  pipeline (Some (enc_name e)) input = Ok (bom_bytes ++ r) ->
  e = Utf8 /\ input = bom_bytes ++ bom_bytes ++ r.
Proof. exact leading_bom_only_if_doubled. Qed.

(* The model tables are the implementation's tables: a TableCase (the 256 runes observed from
   x/text through WrapEncoding, embedded in the case file by the harness) is accepted by
   check_case only if it equals the model's table everywhere - a complete comparison over the
   finite domain, evaluated by vm_compute on every run. *)
Theorem tables_match_impl : forall enc observed,
  check_case (TableCase enc observed) = true ->
  exists e, encoding_of_name enc = Some e /\ e <> Utf8 /\
    observed = map (match e with Latin1 => cp_iso8859_1 | _ => cp_windows1252 end) all_bytes.
Proof. exact table_case_sound. Qed.

(* ---- non-vacuity ------------------------------------------------------------------------------- *)
(* windows-1252 input starting with the bytes EF BB BF, containing the euro sign (80), an
   undefined byte (81) and e-acute (E9): nothing is stripped, the undefined byte becomes U+FFFD. *)
Example c18_codepage_instance :
  pipeline (Some "windows-1252"%string) (hx "efbbbf808141e9")
  = Ok (hx "c3afc2bbc2bfe282acefbfbd41c3a9").
Proof. vm_compute. reflexivity. Qed.

Example c18_transparent_instance :
  pipeline (Some "utf-8"%string) (utf8_of Win1252 (hx "efbbbf808141e9"))
  = Ok (hx "c3afc2bbc2bfe282acefbfbd41c3a9").
Proof. vm_compute. reflexivity. Qed.

Example c18_bom_instances :
  pipeline None (hx "efbbbf41") = Ok (hx "41") /\
  pipeline None (hx "efbbbfefbbbf41") = Ok (hx "efbbbf41") /\
  pipeline None (hx "efbb41") = Ok (hx "efbb41") /\
  pipeline (Some "iso-8859-1"%string) (hx "efbbbf41") = Ok (hx "c3afc2bbc2bf41").
Proof. vm_compute. repeat split; reflexivity. Qed.

Example c18_split_instance :
  strip_bom_pieces [hx "ef"; []; hx "bb"; hx "bf41"; hx "42"] = hx "4142" /\
  strip_bom_pieces [hx "ef"; hx "bb"; hx "41"] = hx "efbb41" /\
  fill_until [] [hx "ef"; hx "bb"; hx "bf41"; hx "42"] = (hx "efbbbf41", [hx "42"]).
Proof. vm_compute. repeat split; reflexivity. Qed.

Example c18_utf8_identity_instance :
  pipeline None (hx "41ff80efbfbdc328") = Ok (hx "41ff80efbfbdc328") /\
  pipeline (Some "utf-8"%string) (hx "efbbbfefbfbd1a") = Ok (hx "efbfbd1a") /\
  pipeline (Some "windows-1252"%string) (hx "41811a") = Ok (hx "41efbfbd1a") /\
  runes (decode cp_windows1252 (hx "80811a")) = [8364%N; 65533%N; 26%N].
Proof. vm_compute. repeat split; reflexivity. Qed.

Example c18_extracted_facts :
  pipeline_order = [StDecode; StStripBOM] /\ wrap_encoding (Some "windows-1252"%string) = Some DecWindows1252.
Proof. split; reflexivity. Qed.
