(* C14 Schemas and process-wide state are safe to share between goroutines.
   Statements only; proofs in Proofs/Conc.v.  Model: Model/Conc.v.

   PARTIAL BY NATURE.  The theorems are about interleavings of ATOMIC actions on the shared
   state (pool get/put, fetch_add, cache get/add).  That the Go code performs these accesses
   atomically - absence of data races in the sense of the Go memory model - cannot be stated in
   Gallina; it is the model's assumption and is validated (not proved) by running the concurrent
   workload of harness/cmd/c14 under the race detector on every check.

   [S]: the schema's validated data (arbitrary); [r]: any runtime table with rt_wf; [compile],
   [xcompile], [xeval]: goja.Compile, xpath.Compile and expression evaluation as arbitrary
   functions of their inputs. *)
From Coq Require Import List NArith Bool.
From Coq Require String. Import String.StringSyntax.
From stdpp Require Import gmap.
From OV Require Import Base.Bytes Base.Cases Model.Js Proofs.Js Proofs.JsRefute Gen.PkgVars Model.Conc Proofs.Conc.
Import ListNotations.
Local Delimit Scope string_scope with string.

Section C14.
  Variable S : Type.
  Variable r : rt.
  Variable compile : N -> option script.
  Variable xcompile : N -> N.
  Variable xeval : S -> N -> bytes -> N.
  Hypothesis Hrt : rt_wf r.

  Notation interleave := (interleave S r compile xcompile xeval).
  Notation cstep := (cstep S r compile xcompile xeval).
  Notation run_alone := (run_alone S r compile xcompile xeval).
  Notation spec_outs := (spec_outs S r compile xcompile xeval).
  Notation Inv := (Inv S r compile xcompile xeval).
  Notation hid_ok := (hid_ok S r compile xcompile).

  (* every atomic action (and every pool drop) preserves the invariant: pooled runtimes are as
     new, caches hold functions of their keys, node IDs in use are pairwise distinct and below
     the counter, a cached node JSON is the content of the one live node with that ID, and each
     goroutine's outputs so far are what its operations mean with no shared state *)
  Theorem atomic_actions_preserve_inv : forall sch opss c c',
    cstep c c' -> Inv sch opss c -> Inv sch opss c'.
  Proof. exact (inv_cstep S r compile xcompile xeval Hrt). Qed.

  (* forall schedules in interleavings(gs), forall g: outputs g sched = run_alone g - for any
     number of goroutines, any pool choices and drops, and ANY two shared states satisfying the
     invariant (the one the schedule starts from and the one g runs alone from) *)
  Theorem interleaving_invisible : forall sch opss (h : hid S) c' i g ops fuel (h0 : hid S),
    hid_ok sch h -> Forall (Forall (op_wf)) opss ->
    interleave (h, map g_init opss) c' ->
    nth_error (snd c') i = Some g -> nth_error opss i = Some ops -> finished g ->
    hid_ok sch h0 ->
    finished (snd (run_alone fuel h0 (g_init ops))) ->
    g_out g = g_out (snd (run_alone fuel h0 (g_init ops))).
  Proof. exact (interleaving_invisible S r compile xcompile xeval Hrt). Qed.

  (* the same with the hidden state eliminated: at every point of every schedule a goroutine's
     outputs are a prefix of a function of its own operations (and the schema) only *)
  Theorem interleaving_spec : forall sch opss (h : hid S) c',
    hid_ok sch h -> Forall (Forall (op_wf)) opss ->
    interleave (h, map g_init opss) c' ->
    Forall2 (fun g ops =>
       (exists rest, spec_outs sch [] ops = g_out g ++ rest) /\
       (finished g -> g_out g = spec_outs sch [] ops)) (snd c') opss.
  Proof. exact (interleaving_spec S r compile xcompile xeval Hrt). Qed.

  (* no action writes schema data *)
  Theorem schema_readonly : forall c c', interleave c c' -> h_schema (fst c') = h_schema (fst c).
  Proof. exact (schema_readonly S r compile xcompile xeval). Qed.

  (* the monotone counter: IDs handed out under any interleaving are pairwise distinct over all
     goroutines, increasing per goroutine, and lie in (counter before, counter after] *)
  Theorem ids_unique_increasing : forall sch opss (h : hid S) c',
    hid_ok sch h -> Forall (Forall (op_wf)) opss ->
    interleave (h, map g_init opss) c' ->
    NoDup (alllogs (snd c')) /\
    Forall (fun g => increasing (g_ids g) = true) (snd c') /\
    Forall (fun id => (h_ctr h < id <= h_ctr (fst c'))%N) (alllogs (snd c')).
  Proof. exact (ids_unique_increasing S r compile xcompile xeval Hrt). Qed.
  (* EXACTLY which accesses are assumed atomic: every step of every goroutine changes the shared
     state by at most one action of the vocabulary [action] (sync.Pool Get/Put of nodes and VMs,
     atomic.AddInt64 on the ID counter, Get / Add of the three internally locked LRU caches) *)
  Theorem gstep_one_action : forall (h : hid S) g ch,
    exists a, fst (gstep S r compile xcompile xeval h g ch) = act_apply S r a h.
  Proof. exact (gstep_one_action S r compile xcompile xeval). Qed.

  (* Schema creation: omniparser.NewSchema running among ANY other goroutines (transforms, other
     NewSchema calls) from ANY shared state satisfying the invariant returns the pure validation
     function of its own arguments and of the compilation of its own xpaths / regexps - it reads
     nothing else (C14-r41 / r43 class: a process-wide memo or a write to the caller's slice is
     state that is not in the model; see process_state_accounted) *)
  Theorem new_schema_reads_args_only : forall {A R} (validate : A -> list N -> R) (args : A)
      sch opss (h : hid S) c' i g es,
    hid_ok sch h -> Forall (Forall (op_wf)) opss ->
    interleave (h, map g_init opss) c' ->
    nth_error opss i = Some (new_schema_ops es) -> nth_error (snd c') i = Some g -> finished g ->
    new_schema_result validate args (g_out g) = validate args (map xcompile es).
  Proof. exact (@new_schema_reads_args_only S r compile xcompile xeval Hrt). Qed.
End C14.

(* The process-wide state of the SOURCES is the shared state of the MODEL: every package-level
   `var` of the library packages (Gen/PkgVars.v, re-extracted on every run) is a component of
   [hid], a test-only switch or an init-time table that no library function writes, or an
   unwritten error value / scalar / function.  A new package-level map, pool, cache, slice or
   counter - what most concurrency defects of this code base would need - is not accounted for:
   this theorem then stops checking. *)
Theorem process_state_accounted : forallb var_ok pkg_vars = true.
Proof. exact process_state_accounted. Qed.

(* ... and conversely every component of the model's shared state is a variable of the sources *)
Theorem shared_components_real :
  forallb component_real all_components = true /\ forall c, In c all_components.
Proof. exact (conj shared_components_real all_components_complete). Qed.

(* ---- non-vacuity: two goroutines over one schema, each: build a node, javascript_with_context on
   it, an xpath query, release - from a state with empty caches of capacity one ------------------- *)
Definition nv_h0 : hid unit := mkHid tt 0 [] (mkLru 1 []) [] (mkLru 1 []) (mkLru 1 []).
Definition nv_ops (c : bytes) : list gop :=
  [GAlloc c; GJs (mkJsOp 1 [] [NODE] (Some 0%nat)); GXPath 5 0; GRelease].
Definition nv_xeval (_ : unit) (e : N) (c : bytes) : N := (e + N.of_nat (length c))%N.

Example c14_nonvacuous :
  hid_ok unit r0 compile0 (fun e => e) tt nv_h0 /\
  Forall (Forall op_wf) [nv_ops (hx "31"%string); nv_ops (hx "3232"%string)] /\
  let g := snd (run_alone unit r0 compile0 (fun e => e) nv_xeval 40 nv_h0 (g_init (nv_ops (hx "31"%string)))) in
  finished g /\
  g_out g = [OutJs (OVal (JsStr (hx "31"%string))); OutX 6%N] /\
  g_out g = spec_outs unit r0 compile0 (fun e => e) nv_xeval tt [] (nv_ops (hx "31"%string)).
Proof.
  split.
  { repeat split; try constructor. }
  split.
  { assert (Hw : forall c, Forall op_wf (nv_ops c)).
    { intros c. unfold nv_ops.
      apply List.Forall_cons; [exact I|]. apply List.Forall_cons; [|repeat (apply List.Forall_cons; [exact I|]); apply List.Forall_nil].
      unfold op_wf, jsop_wf; simpl. intros k; simpl. set_solver. }
    apply List.Forall_cons; [apply Hw|]. apply List.Forall_cons; [apply Hw|apply List.Forall_nil]. }
  vm_compute. repeat split; reflexivity.
Qed.

(* schema creation as a goroutine: three lookups (one repeated), cache of capacity one *)
Example c14_new_schema_nonvacuous :
  let g := snd (run_alone unit r0 compile0 (fun e => (e * 2)%N) nv_xeval 40 nv_h0 (g_init (new_schema_ops [5; 6; 5]%N))) in
  finished g /\ g_out g = [OutC 10%N; OutC 12%N; OutC 10%N] /\
  new_schema_result (fun (name : N) xs => (name, xs)) 7%N (g_out g) = (7%N, [10; 12; 10]%N).
Proof. vm_compute. repeat split; reflexivity. Qed.

Example c14_ids_nonvacuous :
  check_case (mkCCase 10 16 false [[11; 13; 16]; [12; 14; 15]]%N) = true /\
  check_case (mkCCase 10 16 false [[11; 13; 12]; [14]]%N) = false /\
  check_case (mkCCase 10 16 true [[11; 13]; [13]]%N) = false.
Proof. vm_compute. repeat split; reflexivity. Qed.
