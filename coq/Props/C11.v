(* C11 XPath over the node tree agrees with a reference XML DOM.  Statements only; proofs in
   Proofs/Nav.v.

   What is quantified: every document [doc] (any shape and depth, any attributes, prefixes, mixed
   content) in which only elements carry attributes; every start node; every navigator program
   [p] - a deterministic client of xpath.NodeNavigator holding any number of navigators which it
   observes (NodeType, LocalName, Prefix, Value), moves (MoveToRoot/Parent/NextAttribute/Child/
   First/Next/Previous), copies and MoveTo's, and whose next step may depend on everything it has
   seen.  antchfx/xpath v1.1.11 evaluating ANY expression is such a program (Go's type system
   lets it touch the tree only through that interface), so equal program results mean: same
   nodes, same order, same string values, for the whole expression language.

   Scope, stated in the theorems:
   * documents without comment / processing-instruction / declaration nodes (dnode has none: the
     IDR does not represent them);
   * name tests compare LocalName and Prefix strings (that is what the engine does); the
     namespace URI is not part of the NodeNavigator interface of xpath v1.1.11;
   * [ref_ok]: the execution on the REFERENCE performs neither Value() on the document node (Q1:
     xmlquery v1.3.1 returns "" there; the IDR returns the XPath string-value) nor MoveToRoot()
     on an attribute position (Q2: xmlquery keeps its attribute index).  Without this guard the
     statement is false of the faithful models: nav_programs_agree_unguarded_refuted; both
     witnesses are replayed on the Go libraries by the harness (summary.extra.reference_quirks)
     and in both the IDR is the side that follows the XPath data model: against the reference
     with these two methods repaired the agreement holds for every program without any guard
     (nav_programs_agree_repaired), and the repair is invisible inside ref_ok
     (repair_conservative). *)
From Coq Require Import List NArith Bool String.
Import ListNotations.
From OV Require Import Base.Bytes Base.Tree Model.Nav Gen.NavShape Proofs.Nav.

(* One step: related positions give equal observations, and every move (and MoveTo) succeeds or
   fails alike and leads to related positions.  fx = false: xmlquery v1.3.1 as it is, outside its
   two quirks; fx = true: the repaired reference, unconditionally. *)
Theorem nav_simulation : forall fx doc dv iv,
  dom_wfb doc = true -> nav_rel doc dv iv ->
  (forall o, fx = true \/ quirk_obs doc dv o = false ->
     exists v, d_obs fx doc dv o = Some v /\ i_obs (to_idr doc) iv o = Some v) /\
  (forall m, fx = true \/ quirk_move dv m = false ->
     exists dv' iv' b, d_move fx doc dv m = Some (dv', b) /\
                       i_move (to_idr doc) iv m = Some (iv', b) /\ nav_rel doc dv' iv') /\
  (forall dw iw, nav_rel doc dw iw ->
     exists dv' iv' b, d_moveto dv dw = (dv', b) /\ i_moveto iv iw = (iv', b) /\
                       nav_rel doc dv' iv').
Proof. exact nav_simulation. Qed.

(* Whole programs: the xmlquery navigator over doc and the idr navigator over to_idr doc give
   the same result, from every start node. *)
Theorem nav_programs_agree : forall (R : Type) (p : prog R) doc start,
  dom_wfb doc = true -> valid_start doc start = true -> ref_ok doc p (d_init start) ->
  run_dom false doc p (d_init start) = run_idr (to_idr doc) p (i_init (to_ipath doc start)).
Proof. exact nav_programs_agree. Qed.

(* Against the repaired reference (Value() of the document node = its InnerText, MoveToRoot()
   resets the attribute index) the agreement holds for EVERY program: on Q1 and Q2 the IDR does
   what the XPath data model says. *)
Theorem nav_programs_agree_repaired : forall (R : Type) (p : prog R) doc start,
  dom_wfb doc = true -> valid_start doc start = true ->
  run_dom true doc p (d_init start) = run_idr (to_idr doc) p (i_init (to_ipath doc start)).
Proof. exact nav_programs_agree_repaired. Qed.

(* The repair is invisible on executions of xmlquery that stay clear of Q1/Q2. *)
Theorem repair_conservative : forall (R : Type) (p : prog R) doc start,
  dom_wfb doc = true -> valid_start doc start = true -> ref_ok doc p (d_init start) ->
  run_dom true doc p (d_init start) = run_dom false doc p (d_init start).
Proof. exact repair_conservative. Qed.

(* ... and neither binding panics or leaves the tree while doing so. *)
Theorem nav_no_panic : forall (R : Type) (p : prog R) fx doc start,
  dom_wfb doc = true -> valid_start doc start = true -> in_scope fx doc p (d_init start) ->
  exists r, run_dom fx doc p (d_init start) = Some r /\
            run_idr (to_idr doc) p (i_init (to_ipath doc start)) = Some r.
Proof. exact nav_no_panic. Qed.

(* The string-value the IDR reports for a node is the reference's InnerText of that node. *)
Theorem inner_text_agrees : forall n, inner_text (to_idr n) = d_inner_text n.
Proof. exact inner_text_to_idr. Qed.

(* Without ref_ok the statement is false (Q1 and Q2 of xmlquery v1.3.1). *)
Theorem nav_programs_agree_unguarded_refuted :
  exists doc start,
    dom_wfb doc = true /\ valid_start doc start = true /\
    (exists p : prog obs,
       run_dom false doc p (d_init start) <> run_idr (to_idr doc) p (i_init (to_ipath doc start))) /\
    (exists p : prog bool,
       run_dom false doc p (d_init start) <> run_idr (to_idr doc) p (i_init (to_ipath doc start))).
Proof. exact nav_programs_agree_unguarded_refuted. Qed.

(* ---- the guard ref_ok is exactly the two defects of the reference ----------------------------------- *)
(* ref_ok is decidable; check_case evaluates ref_okb on every real run of xmlquery as it is. *)
Theorem ref_okb_spec : forall (R : Type) (p : prog R) doc regs,
  ref_okb doc p regs = true <-> ref_ok doc p regs.
Proof. exact ref_okb_spec. Qed.

(* An observation can differ between xmlquery as it is and the IDR only at Q1 ... *)
Theorem obs_differ_only_at_Q1 : forall doc dv iv o,
  dom_wfb doc = true -> nav_rel doc dv iv ->
  d_obs false doc dv o <> i_obs (to_idr doc) iv o -> quirk_obs doc dv o = true.
Proof. exact obs_differ_only_at_Q1. Qed.

(* ... where xmlquery answers "" and the IDR the text of the document node ... *)
Theorem Q1_characterised : forall doc dv iv o,
  dom_wfb doc = true -> nav_rel doc dv iv -> quirk_obs doc dv o = true ->
  o = OValue /\ exists n, d_node doc (dn_cur dv) = Some n /\ d_kind n = DDoc /\
    d_obs false doc dv o = Some (VStr []) /\
    i_obs (to_idr doc) iv o = Some (VStr (d_inner_text n)).
Proof. exact Q1_characterised. Qed.

(* ... and a move of xmlquery as it is differs from the repaired one only at Q2, MoveToRoot on an
   attribute position, where both go to the root and only xmlquery's attribute index survives. *)
Theorem moves_differ_only_at_Q2 : forall doc dv iv m,
  dom_wfb doc = true -> nav_rel doc dv iv -> quirk_move dv m = false ->
  d_move true doc dv m = d_move false doc dv m.
Proof. exact moves_differ_only_at_Q2. Qed.

Theorem Q2_characterised : forall doc dv iv m,
  dom_wfb doc = true -> nav_rel doc dv iv -> quirk_move dv m = true ->
  m = MRoot /\ exists i, dn_attr dv = Some i /\
    d_move false doc dv m = Some (mkDNav (dn_root dv) (dn_root dv) (Some i), true) /\
    d_move true doc dv m = Some (mkDNav (dn_root dv) (dn_root dv) None, true) /\
    i_move (to_idr doc) iv m = Some (mkINav (in_root iv) (in_root iv), true).
Proof. exact Q2_characterised. Qed.

(* ---- names (what the engine's name test compares) --------------------------------------------------- *)
(* At the IDR position of a DOM node: LocalName = its Data, Prefix = its prefix. *)
Theorem name_of_element : forall doc dr ir dp ip n,
  dom_wfb doc = true -> path_rel doc dr ir -> path_rel doc dp ip -> d_node doc dp = Some n ->
  i_obs (to_idr doc) (mkINav ir ip) OLocalName = Some (VStr (d_data n)) /\
  i_obs (to_idr doc) (mkINav ir ip) OPrefix = Some (VStr (d_prefix n)).
Proof. exact name_of_element. Qed.

(* At the IDR position of attribute i of that node: its local name, prefix, value; type Attribute. *)
Theorem name_of_attribute : forall doc dr ir dp ip n i a,
  dom_wfb doc = true -> path_rel doc dr ir -> path_rel doc dp ip -> d_node doc dp = Some n ->
  nth_error (d_attrs n) i = Some a ->
  i_obs (to_idr doc) (mkINav ir (i :: ip)) OLocalName = Some (VStr (da_local a)) /\
  i_obs (to_idr doc) (mkINav ir (i :: ip)) OPrefix = Some (VStr (da_prefix a)) /\
  i_obs (to_idr doc) (mkINav ir (i :: ip)) OValue = Some (VStr (da_value a)) /\
  i_obs (to_idr doc) (mkINav ir (i :: ip)) ONodeType = Some (VType XAttribute).
Proof. exact name_of_attribute. Qed.

(* The engine's name test (LocalName and Prefix both equal) decides alike on both bindings at
   every related position, elements and attributes, prefixed or not - no guard needed. *)
Theorem name_test_agree : forall doc dv iv pfx local,
  dom_wfb doc = true -> nav_rel doc dv iv ->
  name_test_idr (to_idr doc) iv pfx local = name_test_dom doc dv pfx local /\
  name_test_idr (to_idr doc) iv pfx local <> None.
Proof. exact name_test_agree. Qed.

(* A bare name selects a node iff it has that local name and NO prefix (never <ext:id> for "id";
   a default-namespace element has no prefix and is selected). *)
Theorem bare_name_test_element : forall doc dr ir dp ip n local,
  dom_wfb doc = true -> path_rel doc dr ir -> path_rel doc dp ip -> d_node doc dp = Some n ->
  (name_test_idr (to_idr doc) (mkINav ir ip) [] local = Some true <->
   d_data n = local /\ d_prefix n = []).
Proof. exact bare_name_test_element. Qed.

(* ---- attribute positions ------------------------------------------------------------------------------ *)
(* The attribute axis as the engine walks it (MoveToNextAttribute until refused) visits all
   attributes of the element, once each, in document order, with their prefix, name and value. *)
Theorem attr_walk_document_order : forall doc dr ir dp ip n fuel,
  dom_wfb doc = true -> path_rel doc dr ir -> path_rel doc dp ip -> d_node doc dp = Some n ->
  List.length (d_attrs n) < fuel ->
  i_attr_walk (to_idr doc) (mkINav ir ip) fuel = Some (map attr_obs (d_attrs n)).
Proof. exact attr_walk_document_order. Qed.

(* On an attribute MoveToChild / MoveToFirst / MoveToNext / MoveToPrevious refuse and stay. *)
Theorem attr_position_refuses : forall doc dv iv m,
  dom_wfb doc = true -> nav_rel doc dv iv -> on_attribute dv ->
  m = MChild \/ m = MFirst \/ m = MNext \/ m = MPrev ->
  i_move (to_idr doc) iv m = Some (iv, false).
Proof. exact attr_position_refuses. Qed.

(* MoveToParent from an attribute reaches the element that carries it. *)
Theorem attr_parent_is_owner : forall doc dr ir dp ip n i,
  dom_wfb doc = true -> path_rel doc dr ir -> path_rel doc dp ip -> d_node doc dp = Some n ->
  i < List.length (d_attrs n) ->
  i_move (to_idr doc) (mkINav ir (i :: ip)) MParent = Some (mkINav ir ip, true).
Proof. exact attr_parent_is_owner. Qed.

(* ---- idr/query.go: MatchAll / MatchSingle / MatchAny over ANY iterator --------------------------------- *)
(* MatchAll returns exactly the engine's iteration: every node, in iteration order, duplicates
   kept, nothing else (both directions). *)
Theorem match_all_is_the_iteration : forall (S N : Type) (next : S -> istep S N) self s l,
  (exists fuel, match_all next false self (Some s) fuel = WOk l) <-> yields S N next s l false.
Proof. exact match_all_is_the_iteration. Qed.

Theorem match_all_enough_fuel : forall (S N : Type) (next : S -> istep S N) self s l b fuel,
  yields S N next s l b -> List.length l < fuel ->
  match_all next false self (Some s) fuel = if b then WErr EQueryFailed else WOk l.
Proof. exact match_all_enough_fuel. Qed.

(* MatchSingle: ErrNoMatch / the node / ErrMoreThanExpected by the number of nodes iterated. *)
Theorem match_single_classification : forall (S N : Type) (next : S -> istep S N) self s l,
  yields S N next s l false -> match_single next false self (Some s) = classify N l.
Proof. exact match_single_classification. Qed.

Theorem match_single_on_panic : forall (S N : Type) (next : S -> istep S N) self s l,
  yields S N next s l true ->
  match_single next false self (Some s) =
  match l with _ :: _ :: _ => WErr EMoreThanExpected | _ => WErr EQueryFailed end.
Proof. exact match_single_on_panic. Qed.

(* The two entry points answer one question (the oracle the harness applies to every query). *)
Theorem match_single_consistent_with_match_all :
  forall (S N : Type) (next : S -> istep S N) self s fuel l,
  match_all next false self (Some s) fuel = WOk l ->
  match_single next false self (Some s) = classify N l.
Proof. exact match_single_consistent_with_match_all. Qed.

Theorem match_any_spec : forall (S N : Type) (next : S -> istep S N) s l b,
  yields S N next s l b -> match_any next s = match l with [] => false | _ :: _ => true end.
Proof. exact match_any_spec. Qed.

(* ---- tie to the source: tables and shapes re-extracted from idr/navigator.go on every run ------------- *)
Theorem navigator_shape_extracted :
  (forall ty, nav_nodetype_code ty = Some (xtype_code (i_xtype_of ty))) /\
  nav_child_sibling_moves_refuse_on_attribute = true /\
  (forall t v n m, i_node t (in_cur v) = Some n -> is_attr (t_type n) = true ->
     m = MChild \/ m = MFirst \/ m = MNext \/ m = MPrev -> i_move t v m = Some (v, false)) /\
  nav_value_is_inner_text = true /\
  (forall t v, i_value t v = option_map inner_text (i_node t (in_cur v))).
Proof. exact navigator_shape_extracted. Qed.

(* Non-vacuity: <r xmlns:a="u" k="1" a:k="2">t<a:x id="7">in</a:x><y/></r>; a program that walks
   to the second attribute, back up, to the last child and its previous sibling, copies a
   navigator and moves another one onto it, observing along the way.  The hypotheses of
   nav_programs_agree hold and the common result is computed. *)
Local Open Scope string_scope.
Definition ex_doc : dnode :=
  D DDoc [] [] [] []
    [D DElem (hx "72") [] []
       [mkAttr (hx "786d6c6e73") (hx "61") [] (hx "75"); mkAttr [] (hx "6b") [] (hx "31");
        mkAttr (hx "61") (hx "6b") (hx "75") (hx "32")]
       [D DText (hx "74") [] [] [] [];
        D DElem (hx "78") (hx "61") (hx "75") [mkAttr [] (hx "6964") [] (hx "37")]
          [D DText (hx "696e") [] [] [] []];
        D DElem (hx "79") [] [] [] []]].

Definition ex_ops : list op :=
  [OpMove 0 MChild; OpMove 0 MNextAttr; OpMove 0 MNextAttr; OpMove 0 MNextAttr;
   OpObs 0 ONodeType; OpObs 0 OPrefix; OpObs 0 OLocalName; OpObs 0 OValue;
   OpMove 0 MNextAttr; OpMove 0 MChild; OpMove 0 MParent; OpObs 0 OValue;
   OpMove 0 MChild; OpMove 0 MNext; OpMove 0 MNext; OpMove 0 MNext; OpObs 0 OLocalName;
   OpCopy 0 1; OpMove 0 MPrev; OpObs 0 OPrefix; OpMove 0 MFirst; OpObs 0 ONodeType;
   OpMoveTo 0 1; OpObs 0 OLocalName; OpMove 1 MRoot; OpObs 1 ONodeType].

Example ex_in_scope :
  dom_wfb ex_doc = true /\ valid_start ex_doc [] = true /\
  ref_ok ex_doc (trace_prog ex_ops []) (d_init []).
Proof. vm_compute. repeat split. Qed.

Example ex_result :
  run_idr (to_idr ex_doc) (trace_prog ex_ops []) (i_init (to_ipath ex_doc [])) =
  Some [RBool true; RBool true; RBool true; RBool true;
        RObs (VType XAttribute); RObs (VStr (hx "61")); RObs (VStr (hx "6b")); RObs (VStr (hx "32"));
        RBool false; RBool false; RBool true; RObs (VStr (hx "74696e"));
        RBool true; RBool true; RBool true; RBool false; RObs (VStr (hx "79"));
        RUnit; RBool true; RObs (VStr (hx "61")); RBool true; RObs (VType XText);
        RBool true; RObs (VStr (hx "79")); RBool true; RObs (VType XRoot)].
Proof. vm_compute. reflexivity. Qed.

Example ex_agree :
  run_dom false ex_doc (trace_prog ex_ops []) (d_init []) =
  run_idr (to_idr ex_doc) (trace_prog ex_ops []) (i_init (to_ipath ex_doc [])).
Proof.
  destruct ex_in_scope as (H1 & H2 & H3). exact (nav_programs_agree _ _ _ _ H1 H2 H3).
Qed.

(* Non-vacuity of nav_simulation: on ex_doc the DOM position "attribute 2 (a:k) of the root
   element" and the IDR path [2; 0] (third child of the first child of the document node) are
   related; the simulation then gives, e.g., the same Value and a refused MoveToChild. *)
Example ex_nav_rel :
  nav_rel ex_doc (mkDNav [] [0] (Some 2)) (mkINav [] [2; 0]).
Proof.
  split; simpl.
  - constructor.
  - exists [0], (D DElem (hx "72") [] []
       [mkAttr (hx "786d6c6e73") (hx "61") [] (hx "75"); mkAttr [] (hx "6b") [] (hx "31");
        mkAttr (hx "61") (hx "6b") (hx "75") (hx "32")]
       [D DText (hx "74") [] [] [] [];
        D DElem (hx "78") (hx "61") (hx "75") [mkAttr [] (hx "6964") [] (hx "37")]
          [D DText (hx "696e") [] [] [] []];
        D DElem (hx "79") [] [] [] []]).
    repeat split.
    + apply (pr_child ex_doc [] [] ex_doc 0); [constructor|reflexivity|simpl; auto].
    + simpl. auto.
Qed.

(* Non-vacuity of nav_programs_agree_repaired: Q2 itself (attribute, MoveToRoot, MoveToChild)
   and Q1 (Value of the document node) on <r k="1">t<x/></r>. *)
Example ex_repaired_q2 :
  run_dom true q_doc q2_prog (d_init []) = Some true /\
  run_idr (to_idr q_doc) q2_prog (i_init (to_ipath q_doc [])) = Some true.
Proof. split; vm_compute; reflexivity. Qed.

Example ex_repaired_q1 :
  run_dom true q_doc q1_prog (d_init []) = Some (VStr (hx "74")) /\
  run_idr (to_idr q_doc) q1_prog (i_init (to_ipath q_doc [])) = Some (VStr (hx "74")).
Proof. split; vm_compute; reflexivity. Qed.

(* Non-vacuity of the new statements, on ex_doc (root element r at DOM path [0], IDR path [0]). *)
Example ex_attr_walk :
  i_attr_walk (to_idr ex_doc) (mkINav [] [0]) 4 =
  Some [(VStr (hx "786d6c6e73"), VStr (hx "61"), VStr (hx "75"));
        (VStr [], VStr (hx "6b"), VStr (hx "31"));
        (VStr (hx "61"), VStr (hx "6b"), VStr (hx "32"))].
Proof. vm_compute. reflexivity. Qed.

(* the bare name "x" does not select <a:x> (second child of r: DOM path [1;0], IDR path [4;0]);
   "a:x" does *)
Example ex_bare_name :
  name_test_idr (to_idr ex_doc) (mkINav [] [4; 0]) [] (hx "78") = Some false /\
  name_test_idr (to_idr ex_doc) (mkINav [] [4; 0]) (hx "61") (hx "78") = Some true.
Proof. split; vm_compute; reflexivity. Qed.

(* Q1 and Q2 positions exist: the document node of q_doc; attribute k of its root element *)
Example ex_quirk_positions :
  quirk_obs q_doc (mkDNav [] [] None) OValue = true /\
  quirk_move (mkDNav [] [0] (Some 0)) MRoot = true /\
  nav_rel q_doc (mkDNav [] [0] (Some 0)) (mkINav [] [0; 0]).
Proof.
  split; [reflexivity|]. split; [reflexivity|]. split; simpl.
  - constructor.
  - eexists [0], _. split; [|split; [reflexivity|split; [|reflexivity]]].
    + apply (pr_child q_doc [] [] q_doc 0); [constructor|reflexivity|simpl; auto].
    + simpl; auto.
Qed.

(* an iterator that yields 7, 7, 9 (a duplicate): MatchAll keeps all three in order,
   MatchSingle says "more than expected", MatchAny true *)
Example ex_wrappers :
  yields (list N) N (script_next false) [7; 7; 9]%N [7; 7; 9]%N false /\
  match_all (script_next false) false 0%N (Some [7; 7; 9]%N) 4 = WOk [7; 7; 9]%N /\
  match_single (script_next false) false 0%N (Some [7; 7; 9]%N) = WErr EMoreThanExpected /\
  match_single (script_next false) false 0%N (Some [7]%N) = WOk 7%N /\
  match_single (script_next false) false 0%N (Some []) = WErr ENoMatch /\
  match_any (script_next false) [7; 7; 9]%N = true.
Proof. split; [apply script_yields|]. repeat split. Qed.
