(* C11 XPath over the node tree agrees with a reference XML DOM.  Statements only; proofs in
   Proofs/Nav.v.

   What is quantified: every document [doc] (any shape and depth, any attributes, prefixes, mixed
   content) in which only elements carry attributes; every start node; every navigator program
   [p] - a deterministic client of xpath.NodeNavigator holding any number of navigators which it
   observes (NodeType, LocalName, Prefix, Value), moves (MoveToRoot/Parent/NextAttribute/Child/
   First/Next/Previous), copies and MoveTo's, and whose next step may depend on everything it has
   seen.  antchfx/xpath v1.1.11 evaluating ANY expression is such a program (Go's type system
   lets it touch the tree only through that interface), so equal program results mean: same
   nodes, same order, same string values, for the whole expression language.

   Scope, stated in the theorems:
   * documents without comment / processing-instruction / declaration nodes (dnode has none: the
     IDR does not represent them);
   * name tests compare LocalName and Prefix strings (that is what the engine does); the
     namespace URI is not part of the NodeNavigator interface of xpath v1.1.11;
   * [ref_ok]: the execution on the REFERENCE performs neither Value() on the document node (Q1:
     xmlquery v1.3.1 returns "" there; the IDR returns the XPath string-value) nor MoveToRoot()
     on an attribute position (Q2: xmlquery keeps its attribute index).  Without this guard the
     statement is false of the faithful models: nav_programs_agree_unguarded_refuted; both
     witnesses are replayed on the Go libraries by the harness (summary.extra.reference_quirks)
     and in both the IDR is the side that follows the XPath data model: against the reference
     with these two methods repaired the agreement holds for every program without any guard
     (nav_programs_agree_repaired), and the repair is invisible inside ref_ok
     (repair_conservative). *)
From Coq Require Import List NArith Bool String.
Import ListNotations.
From OV Require Import Base.Bytes Base.Tree Model.Nav Proofs.Nav.

(* One step: related positions give equal observations, and every move (and MoveTo) succeeds or
   fails alike and leads to related positions.  fx = false: xmlquery v1.3.1 as it is, outside its
   two quirks; fx = true: the repaired reference, unconditionally. *)
Theorem nav_simulation : forall fx doc dv iv,
  dom_wfb doc = true -> nav_rel doc dv iv ->
  (forall o, fx = true \/ quirk_obs doc dv o = false ->
     exists v, d_obs fx doc dv o = Some v /\ i_obs (to_idr doc) iv o = Some v) /\
  (forall m, fx = true \/ quirk_move dv m = false ->
     exists dv' iv' b, d_move fx doc dv m = Some (dv', b) /\
                       i_move (to_idr doc) iv m = Some (iv', b) /\ nav_rel doc dv' iv') /\
  (forall dw iw, nav_rel doc dw iw ->
     exists dv' iv' b, d_moveto dv dw = (dv', b) /\ i_moveto iv iw = (iv', b) /\
                       nav_rel doc dv' iv').
Proof. exact nav_simulation. Qed.

(* Whole programs: the xmlquery navigator over doc and the idr navigator over to_idr doc give
   the same result, from every start node. *)
Theorem nav_programs_agree : forall (R : Type) (p : prog R) doc start,
  dom_wfb doc = true -> valid_start doc start = true -> ref_ok doc p (d_init start) ->
  run_dom false doc p (d_init start) = run_idr (to_idr doc) p (i_init (to_ipath doc start)).
Proof. exact nav_programs_agree. Qed.

(* Against the repaired reference (Value() of the document node = its InnerText, MoveToRoot()
   resets the attribute index) the agreement holds for EVERY program: on Q1 and Q2 the IDR does
   what the XPath data model says. *)
Theorem nav_programs_agree_repaired : forall (R : Type) (p : prog R) doc start,
  dom_wfb doc = true -> valid_start doc start = true ->
  run_dom true doc p (d_init start) = run_idr (to_idr doc) p (i_init (to_ipath doc start)).
Proof. exact nav_programs_agree_repaired. Qed.

(* The repair is invisible on executions of xmlquery that stay clear of Q1/Q2. *)
Theorem repair_conservative : forall (R : Type) (p : prog R) doc start,
  dom_wfb doc = true -> valid_start doc start = true -> ref_ok doc p (d_init start) ->
  run_dom true doc p (d_init start) = run_dom false doc p (d_init start).
Proof. exact repair_conservative. Qed.

(* ... and neither binding panics or leaves the tree while doing so. *)
Theorem nav_no_panic : forall (R : Type) (p : prog R) fx doc start,
  dom_wfb doc = true -> valid_start doc start = true -> in_scope fx doc p (d_init start) ->
  exists r, run_dom fx doc p (d_init start) = Some r /\
            run_idr (to_idr doc) p (i_init (to_ipath doc start)) = Some r.
Proof. exact nav_no_panic. Qed.

(* The string-value the IDR reports for a node is the reference's InnerText of that node. *)
Theorem inner_text_agrees : forall n, inner_text (to_idr n) = d_inner_text n.
Proof. exact inner_text_to_idr. Qed.

(* Without ref_ok the statement is false (Q1 and Q2 of xmlquery v1.3.1). *)
Theorem nav_programs_agree_unguarded_refuted :
  exists doc start,
    dom_wfb doc = true /\ valid_start doc start = true /\
    (exists p : prog obs,
       run_dom false doc p (d_init start) <> run_idr (to_idr doc) p (i_init (to_ipath doc start))) /\
    (exists p : prog bool,
       run_dom false doc p (d_init start) <> run_idr (to_idr doc) p (i_init (to_ipath doc start))).
Proof. exact nav_programs_agree_unguarded_refuted. Qed.

(* Non-vacuity: <r xmlns:a="u" k="1" a:k="2">t<a:x id="7">in</a:x><y/></r>; a program that walks
   to the second attribute, back up, to the last child and its previous sibling, copies a
   navigator and moves another one onto it, observing along the way.  The hypotheses of
   nav_programs_agree hold and the common result is computed. *)
Local Open Scope string_scope.
Definition ex_doc : dnode :=
  D DDoc [] [] [] []
    [D DElem (hx "72") [] []
       [mkAttr (hx "786d6c6e73") (hx "61") [] (hx "75"); mkAttr [] (hx "6b") [] (hx "31");
        mkAttr (hx "61") (hx "6b") (hx "75") (hx "32")]
       [D DText (hx "74") [] [] [] [];
        D DElem (hx "78") (hx "61") (hx "75") [mkAttr [] (hx "6964") [] (hx "37")]
          [D DText (hx "696e") [] [] [] []];
        D DElem (hx "79") [] [] [] []]].

Definition ex_ops : list op :=
  [OpMove 0 MChild; OpMove 0 MNextAttr; OpMove 0 MNextAttr; OpMove 0 MNextAttr;
   OpObs 0 ONodeType; OpObs 0 OPrefix; OpObs 0 OLocalName; OpObs 0 OValue;
   OpMove 0 MNextAttr; OpMove 0 MChild; OpMove 0 MParent; OpObs 0 OValue;
   OpMove 0 MChild; OpMove 0 MNext; OpMove 0 MNext; OpMove 0 MNext; OpObs 0 OLocalName;
   OpCopy 0 1; OpMove 0 MPrev; OpObs 0 OPrefix; OpMove 0 MFirst; OpObs 0 ONodeType;
   OpMoveTo 0 1; OpObs 0 OLocalName; OpMove 1 MRoot; OpObs 1 ONodeType].

Example ex_in_scope :
  dom_wfb ex_doc = true /\ valid_start ex_doc [] = true /\
  ref_ok ex_doc (trace_prog ex_ops []) (d_init []).
Proof. vm_compute. repeat split. Qed.

Example ex_result :
  run_idr (to_idr ex_doc) (trace_prog ex_ops []) (i_init (to_ipath ex_doc [])) =
  Some [RBool true; RBool true; RBool true; RBool true;
        RObs (VType XAttribute); RObs (VStr (hx "61")); RObs (VStr (hx "6b")); RObs (VStr (hx "32"));
        RBool false; RBool false; RBool true; RObs (VStr (hx "74696e"));
        RBool true; RBool true; RBool true; RBool false; RObs (VStr (hx "79"));
        RUnit; RBool true; RObs (VStr (hx "61")); RBool true; RObs (VType XText);
        RBool true; RObs (VStr (hx "79")); RBool true; RObs (VType XRoot)].
Proof. vm_compute. reflexivity. Qed.

Example ex_agree :
  run_dom false ex_doc (trace_prog ex_ops []) (d_init []) =
  run_idr (to_idr ex_doc) (trace_prog ex_ops []) (i_init (to_ipath ex_doc [])).
Proof.
  destruct ex_in_scope as (H1 & H2 & H3). exact (nav_programs_agree _ _ _ _ H1 H2 H3).
Qed.

(* Non-vacuity of nav_simulation: on ex_doc the DOM position "attribute 2 (a:k) of the root
   element" and the IDR path [2; 0] (third child of the first child of the document node) are
   related; the simulation then gives, e.g., the same Value and a refused MoveToChild. *)
Example ex_nav_rel :
  nav_rel ex_doc (mkDNav [] [0] (Some 2)) (mkINav [] [2; 0]).
Proof.
  split; simpl.
  - constructor.
  - exists [0], (D DElem (hx "72") [] []
       [mkAttr (hx "786d6c6e73") (hx "61") [] (hx "75"); mkAttr [] (hx "6b") [] (hx "31");
        mkAttr (hx "61") (hx "6b") (hx "75") (hx "32")]
       [D DText (hx "74") [] [] [] [];
        D DElem (hx "78") (hx "61") (hx "75") [mkAttr [] (hx "6964") [] (hx "37")]
          [D DText (hx "696e") [] [] [] []];
        D DElem (hx "79") [] [] [] []]).
    repeat split.
    + apply (pr_child ex_doc [] [] ex_doc 0); [constructor|reflexivity|simpl; auto].
    + simpl. auto.
Qed.

(* Non-vacuity of nav_programs_agree_repaired: Q2 itself (attribute, MoveToRoot, MoveToChild)
   and Q1 (Value of the document node) on <r k="1">t<x/></r>. *)
Example ex_repaired_q2 :
  run_dom true q_doc q2_prog (d_init []) = Some true /\
  run_idr (to_idr q_doc) q2_prog (i_init (to_ipath q_doc [])) = Some true.
Proof. split; vm_compute; reflexivity. Qed.

Example ex_repaired_q1 :
  run_dom true q_doc q1_prog (d_init []) = Some (VStr (hx "74")) /\
  run_idr (to_idr q_doc) q1_prog (i_init (to_ipath q_doc [])) = Some (VStr (hx "74")).
Proof. split; vm_compute; reflexivity. Qed.
