(* C10 Records are transformed independently; a failing record affects only itself.
   Statements only; proofs in Proofs/Pipeline.v.
   Scope (written into the statements): the reader model is "flat record lists under one parent
   with a fixed envelope" - per unit the reader delivers a record tree, a continuable failure or
   a fatal error, independently of the other units.  This covers csv, fixed-length, json and xml
   targets under one parent, and the EDI / csv2 / fixedlength2 hierarchies as long as the
   concatenation stays within the declared max bounds (their occurrence counters are legitimate
   cross-record state and are NOT part of this model).  The envelope context ctx is the
   non-target context a schema can address; it is the same in all runs compared.  The
   algebraic laws need "no terminal result inside the part that is continued" (nofatal):
   after a terminal result nothing is read any more (C01). *)
From Coq Require Import List NArith Bool.
From Coq.Strings Require Import Byte.
Import ListNotations.
From OV Require Import Model.Value Model.XPathFrag Model.Decl Model.Eval Proofs.PipelineC02.
From OV Require Import Base.Bytes Base.Tree Model.Pipeline Proofs.Pipeline Proofs.PipelineInst Proofs.PipelineCanon.

Section C10.
  Variable schema V C : Type.
  Variable c0 : C.                                  (* all evaluator-side caches empty *)
  Variable eval : bool -> C -> schema -> world -> option V * C.   (* ParseNode: memo switch, caches *)
  Variable marshal : V -> option bytes.
  Variable marshal_err_cont : bool.
  Variable H : bytes -> bytes.
  Variable canon : tree -> bytes.
  Variable CInv : list N -> C -> Prop.              (* cache invariant relative to the IDs handed out so far *)
  Variable content_stable_per_id : schema -> Prop.  (* guard of DESIGN section 6 F6 *)
  (* what the pipeline level needs from the evaluator (C02), the caches (C13 ingredients
     expr_cache_pure / js_isolation / node_json_fresh, C20) - to be instantiated by the integrator *)
  Hypothesis CInv_mono : forall used used' c,
    (forall x, In x used -> In x used') -> CInv used c -> CInv used' c.
  Hypothesis eval_cache_transparent : forall s w,
    content_stable_per_id s -> NoDup (w_ids w) ->
    fst (eval true c0 s w) = fst (eval false c0 s w).
  Hypothesis eval_id_renaming : forall (f : N -> N) m s w,
    content_stable_per_id s -> NoDup (w_ids w) ->
    (forall x y, In x (w_ids w) -> In y (w_ids w) -> f x = f y -> x = y) ->
    fst (eval m c0 s (w_rename f w)) = fst (eval m c0 s w).
  Hypothesis eval_caches_sound : forall used c m s w,
    CInv used c -> (forall i, In i (w_rec_ids w) -> ~ In i used) -> content_stable_per_id s ->
    NoDup (w_ids w) ->
    fst (eval m c s w) = fst (eval m c0 s w) /\ CInv (w_rec_ids w ++ used) (snd (eval m c s w)).
  Notation run_env := (run_env schema V C eval marshal marshal_err_cont H canon).
  Notation Inv := (Inv C CInv).

  Notation unit_result := (unit_result schema V C c0 eval marshal marshal_err_cont H canon).

  (* the result at position i is a function of unit i, the envelope context, the schema and the
     externals (inside eval) only - whatever the hidden state, whatever the other records *)
  Theorem record_local : forall h s ctx us i u,
    Inv h -> content_stable_per_id s -> nofatal (run_env h s ctx us) ->
    nth_error us i = Some u -> nth_error (run_env h s ctx us) i = Some (unit_result s ctx u).
  Proof. exact (record_local schema V C c0 eval marshal marshal_err_cont H canon CInv content_stable_per_id CInv_mono eval_cache_transparent eval_id_renaming eval_caches_sound). Qed.

  Theorem run_app : forall h ha hb s ctx a b,
    Inv h -> Inv ha -> Inv hb -> content_stable_per_id s ->
    nofatal (run_env ha s ctx a) ->
    run_env h s ctx (a ++ b) = run_env ha s ctx a ++ run_env hb s ctx b.
  Proof. exact (run_app schema V C c0 eval marshal marshal_err_cont H canon CInv content_stable_per_id CInv_mono eval_cache_transparent eval_id_renaming eval_caches_sound). Qed.

  (* without the side condition: the second half is reached only if the first has no terminal result *)
  Theorem run_app_gen : forall h ha hb s ctx a b,
    Inv h -> Inv ha -> Inv hb -> content_stable_per_id s ->
    run_env h s ctx (a ++ b) = cut_fatal (run_env ha s ctx a ++ run_env hb s ctx b).
  Proof. exact (run_app_gen schema V C c0 eval marshal marshal_err_cont H canon CInv content_stable_per_id CInv_mono eval_cache_transparent eval_id_renaming eval_caches_sound). Qed.

  (* any selection / reordering of the units by an index list (a permutation in particular).
     In this reader model the envelope is fixed, so the law holds for every schema inside the
     guard; for readers whose context changes with the position it is the local_schema
     restriction of DESIGN C10 that makes ctx irrelevant. *)
  Theorem run_perm : forall h h' s ctx us pi,
    Inv h -> Inv h' -> content_stable_per_id s ->
    nofatal (run_env h' s ctx us) ->
    run_env h s ctx (permute pi us) = permute pi (run_env h' s ctx us).
  Proof. exact (run_perm schema V C c0 eval marshal marshal_err_cont H canon CInv content_stable_per_id CInv_mono eval_cache_transparent eval_id_renaming eval_caches_sound). Qed.

  Theorem run_replace_failing : forall h h' s ctx us i t',
    Inv h -> Inv h' -> content_stable_per_id s ->
    nofatal (run_env h' s ctx us) ->
    fst (eval false c0 s (canon_world ctx t')) = None ->
    run_env h s ctx (replace_at i (URec t') us) = replace_at i RFail (run_env h' s ctx us).
  Proof. exact (run_replace_failing schema V C c0 eval marshal marshal_err_cont H canon CInv content_stable_per_id CInv_mono eval_cache_transparent eval_id_renaming eval_caches_sound). Qed.
End C10.


(* ---- with the C02 evaluator: no evaluator hypothesis left ---------------------------------------- *)
(* eval_c02 (Proofs/PipelineC02.v) = Model/Eval.v's ParseNode model run on the document
   T DocumentNode [] FNone (ctx ++ [record]) at the record, node IDs = the world's IDs by preorder
   index; eval_cache_transparent / eval_id_renaming are discharged by Proofs/EvalCache.v
   (caches_invisible_eval, eval_id_renaming, memo_sound_nil).  What remains assumed: the xpath
   engine returns nodes of the tree it is run on (query_valid); engine, externals and custom
   functions are deterministic functions (Section variables). *)
Section C10_C02.
  Variable query : tree -> bytes -> path -> option (list path).
  Variable ext : bytes -> option bytes.
  Variable fsigs : bytes -> option fsig.
  Variable fcall : tree -> bytes -> path -> list value -> cfres.
  Variable pcall : tree -> bytes -> path -> cfres.
  Hypothesis query_valid : forall root x p ps,
    valid root p -> query root x p = Some ps -> Forall (valid root) ps.
  Variable marshal : value -> option bytes.
  Variable marshal_err_cont : bool.
  Variable H : bytes -> bytes.
  Variable canon : tree -> bytes.
  Notation eval_c02 := (eval_c02 query ext fsigs fcall pcall).
  Notation run_env_c02 := (run_env vdecl value unit eval_c02 marshal marshal_err_cont H canon).

  Theorem run_app_c02 : forall h ha hb s ctx a b,
    Inv0 h -> Inv0 ha -> Inv0 hb ->
    nofatal (run_env_c02 ha s ctx a) ->
    run_env_c02 h s ctx (a ++ b) = run_env_c02 ha s ctx a ++ run_env_c02 hb s ctx b.
  Proof. exact (run_app_c02 query ext fsigs fcall pcall query_valid marshal marshal_err_cont H canon). Qed.
End C10_C02.

(* the list algebra the correspondence checker evaluates *)
Theorem replace_at_spec : forall (A : Type) i j (x : A) l,
  length (replace_at i x l) = length l /\
  (i < length l -> nth_error (replace_at i x l) i = Some x) /\
  (i <> j -> nth_error (replace_at i x l) j = nth_error l j).
Proof.
  intros A i j x l. split; [apply replace_at_length|].
  split; [apply nth_error_replace_at_same|apply nth_error_replace_at_other].
Qed.

(* Non-vacuity: the hypotheses are met by a concrete evaluator with an ID-keyed node-JSON cache
   that is consulted and filled (Proofs/PipelineInst.v), and three different hidden states (fresh
   process; warmed-up process with pooled nodes, a sync.Pool schedule, memo off, a filled cache;
   pooling and JS caches off) satisfy Inv. *)
Example c10_hypotheses_satisfiable :
  (forall used used' c, (forall x, In x used -> In x used') -> tCInv used c -> tCInv used' c) /\
  (forall s w, tguard s -> NoDup (w_ids w) -> fst (teval true tc0 s w) = fst (teval false tc0 s w)) /\
  (forall (f : N -> N) m s w, tguard s -> NoDup (w_ids w) ->
     (forall x y, In x (w_ids w) -> In y (w_ids w) -> f x = f y -> x = y) ->
     fst (teval m tc0 s (w_rename f w)) = fst (teval m tc0 s w)) /\
  (forall used c m s w, tCInv used c -> (forall i, In i (w_rec_ids w) -> ~ In i used) -> tguard s ->
     NoDup (w_ids w) ->
     fst (teval m c s w) = fst (teval m tc0 s w) /\ tCInv (w_rec_ids w ++ used) (snd (teval m c s w))) /\
  Pipeline.Inv tcache tCInv h_fresh /\ Pipeline.Inv tcache tCInv h_warm /\ Pipeline.Inv tcache tCInv h_off /\
  tguard OnRecord.
Proof.
  split; [exact t_CInv_mono|]. split; [intros; apply t_cache_transparent|].
  split; [intros; apply t_id_renaming; assumption|]. split; [intros; apply t_caches_sound; assumption|].
  split; [exact Inv_h_fresh|]. split; [exact Inv_h_warm|]. split; [exact Inv_h_off|reflexivity].
Qed.

(* a run with >= 3 records of which some fail, on the instance: replacing record 0 by a failing
   one changes exactly position 0 *)
Example c10_instance_replace :
  t_run h_warm OnRecord t_ctx (replace_at 0 (URec empty_rec) t_units) =
  replace_at 0 RFail (t_run h_fresh OnRecord t_ctx t_units) /\
  t_run h_warm OnRecord t_ctx (permute [4; 0; 3; 2; 1] t_units) =
  permute [4; 0; 3; 2; 1] (t_run h_fresh OnRecord t_ctx t_units).
Proof. split; vm_compute; reflexivity. Qed.

(* ---- with JavaScript (Proofs/PipelineJs.v; see Props/C13.v caches_invisible_js for the model) --- *)
From OV Require Model.Js Proofs.Js Proofs.PipelineJs.
Module MJ := OV.Model.Js.
Module PJ := OV.Proofs.Js.
Module PJS := OV.Proofs.PipelineJs.

Section C10_JS.
  Variable r : MJ.rt.
  Variable compile : N -> option MJ.script.
  Hypothesis r_wf : PJ.rt_wf r.
  Variable query : tree -> bytes -> path -> option (list path).
  Variable ext : bytes -> option bytes.
  Variable fsigs : bytes -> option fsig.
  Variable fcall0 : tree -> bytes -> path -> list value -> cfres.
  Variable pcall : tree -> bytes -> path -> cfres.
  Hypothesis query_valid : forall root x p ps,
    valid root p -> query root x p = Some ps -> Forall (valid root) ps.
  Variable js_of : tree -> bytes -> path -> list value -> option (MJ.call * MJ.sched).
  Variable matches : MJ.call * MJ.sched -> MJ.call * MJ.sched -> bool.
  Hypothesis matches_spec : forall a b, matches a b = true ->
    PJ.call_spec r compile (fst a) (snd a) = PJ.call_spec r compile (fst b) (snd b).
  Variable cf_of : MJ.outcome * option bytes -> cfres.
  Variable jscalls : bool -> vdecl -> world -> list (MJ.call * MJ.sched).
  Variable js_guard : vdecl -> Prop.
  Hypothesis jscalls_wf : forall m s w, js_guard s -> NoDup (w_ids w) ->
    forall c sc, In (c, sc) (jscalls m s w) ->
      PJ.call_wf c sc /\ (forall id j, MJ.c_node c = Some (id, j) -> In id (w_rec_ids w)).
  Hypothesis jscalls_stable : forall m s w, js_guard s -> NoDup (w_ids w) ->
    PJ.content_stable_per_id (map fst (jscalls m s w)).
  Variable progcap nodecap : N.
  Variable marshal : value -> option bytes.
  Variable marshal_err_cont : bool.
  Variable H : bytes -> bytes.
  Variable canon : tree -> bytes.
  Notation eval_js := (PJS.eval_js r compile query ext fsigs fcall0 pcall js_of matches cf_of jscalls).
  Notation run_env_js := (run_env vdecl value MJ.jsstate eval_js marshal marshal_err_cont H canon).
  Notation InvJ := (PJS.InvJ r compile).

  Theorem run_app_js : forall h ha hb s ctx a b,
    InvJ h -> InvJ ha -> InvJ hb -> js_guard s ->
    nofatal (run_env_js ha s ctx a) ->
    run_env_js h s ctx (a ++ b) = run_env_js ha s ctx a ++ run_env_js hb s ctx b.
  Proof.
    exact (PJS.run_app_js r compile r_wf query ext fsigs fcall0 pcall query_valid js_of matches
             matches_spec cf_of jscalls js_guard jscalls_wf jscalls_stable progcap nodecap
             marshal marshal_err_cont H canon).
  Qed.
End C10_JS.
