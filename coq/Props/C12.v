(* C12 Node trees stay structurally sound and pooled nodes are never aliased.
   Statements only; proofs in Proofs/Heap*.v.

   Vocabulary (definitions in Model/Heap.v and Proofs/HeapTree.v, HeapRep.v, Heap.v):
   - [step caching s o]: one operation of idr/node.go on the pointer-level state s
     (CreateNode / CreateXMLNode / CreateJSONNode with an explicit sync.Pool choice, AddChild,
     RemoveAndReleaseTree), transcribed pointer update by pointer update; outcome Ok, Panic
     (nil dereference), OutOfFuel or BadChoice.
   - [pre_b caching s F o]: the API precondition of o, decided on the forest F that s represents.
   - [aeffect s F o]: the abstract effect - a new root, [graft p n F] or [prune n F].
   - [tree_ok h par prev next t]: the heap region [addrs t] is laid out as the ordered tree t:
     every node's Parent / PrevSibling / NextSibling / FirstChild / LastChild are exactly what
     its place in t dictates.
   - [Rep caching s F]: every tree of F is tree_ok with nil parent and siblings; the addresses of
     F and of the pool are pairwise distinct (acyclic, unshared, pool disjoint and duplicate
     free); pooled nodes are blank; IDs of live and pooled nodes are pairwise distinct.
   - [reachable caching s F acq]: s is reached from the initial state by some history of
     operations meeting their preconditions, with arbitrary pool choices; acq lists the IDs the
     created nodes carried when they were handed out. *)
From Coq Require Import List NArith ZArith Bool String.
From stdpp Require Import pmap.
From OV Require Import Base.Bytes Base.Cases Base.Tree Model.Hier Model.Stream Model.Heap Model.HeapReaders Model.HeapReadersHier
  Gen.NodeReset Model.HeapReset Proofs.HeapReset Gen.NodeOps Model.HeapOpsGen Proofs.HeapOpsGen
  Proofs.HeapIds Proofs.HeapTree Proofs.HeapOps Proofs.HeapRep Proofs.Heap Proofs.HeapReader Proofs.HeapCheck
  Proofs.HeapPay Proofs.HeapZip Proofs.HeapPrims Proofs.HeapReaders Proofs.HeapReadersJson
  Proofs.HeapReadersHier.
Import ListNotations.

(* (1) Refinement: an operation whose API precondition holds never panics, never runs out of
   fuel, accepts the pool choice, preserves the representation and changes the abstract forest
   by new-root / graft / prune.  For every state, pooling on or off, every pool choice. *)
Theorem heap_refines_forest : forall caching s F o,
  Rep caching s F -> pre_b caching s F o = true ->
  exists s' ret, step caching s o = Ok (s', ret) /\ Rep caching s' (aeffect s F o).
Proof. exact heap_refines_forest_pf. Qed.

(* ... hence by induction over arbitrary operation histories: *)
Theorem reachable_rep : forall caching s F acq, reachable caching s F acq -> Rep caching s F.
Proof. exact reachable_rep_pf. Qed.

(* A history given as a list fails only where a precondition is violated: no panic, no fuel
   exhaustion in recycle, and every offered pool choice is one the model accepts. *)
Theorem history_total : forall caching ops s F acq,
  reachable caching s F acq ->
  run2 caching s F acq ops = None ->
  exists pre o post s1 F1 acq1, ops = pre ++ o :: post /\
    run2 caching s F acq pre = Some (s1, F1, acq1) /\ pre_b caching s1 F1 o = false.
Proof. exact run2_total. Qed.

(* The executable abstraction function reads the represented tree back from the heap. *)
Theorem abs_reads_forest : forall caching s F acq t,
  reachable caching s F acq -> t ∈ F -> abs s (root t) = Some t.
Proof. exact abs_reads_forest_pf. Qed.

(* The Boolean checker that the correspondence evaluates on every observed state and on every
   tree handed out by a reader decides exactly the representation predicate of the theorems. *)
Theorem checker_decides_tree_ok : forall h t par prev next,
  tree_ok_b h par prev next t = true <-> tree_ok h par prev next t.
Proof. exact tree_ok_b_spec. Qed.

(* (2) In every reachable state the pool holds no address twice, no pooled address is live, and
   no link of a live node leads out of the live forest (so none leads to a pooled node). *)
Theorem pool_disjoint_nodup : forall caching s F acq,
  reachable caching s F acq ->
  NoDup (pool s) /\
  (forall a, a ∈ pool s -> a ∉ addrs_f F) /\
  (forall a x b, a ∈ addrs_f F -> heap s !! a = Some x ->
     (n_parent x = Some b \/ n_first x = Some b \/ n_last x = Some b \/ n_prev x = Some b \/ n_next x = Some b) ->
     b ∈ addrs_f F /\ b ∉ pool s).
Proof. exact pool_disjoint_nodup_pf. Qed.

(* No live node occurs twice in the forest: trees are acyclic and share nothing. *)
Theorem live_forest_nodup : forall caching s F acq,
  reachable caching s F acq -> NoDup (addrs_f F).
Proof. exact live_forest_nodup_pf. Qed.

(* A node returned by create - fresh or pooled, whatever the choice - has no links, the
   requested type and data and the requested format-specific value (nil for CreateNode). *)
Theorem fresh_blank : forall caching s F acq c ty data fs s' a,
  reachable caching s F acq ->
  create caching s c ty data fs = Ok (s', a) ->
  exists id, heap s' !! a = Some (mkNode id None None None None None ty data fs).
Proof. exact fresh_blank_pf. Qed.

(* (3) Over any history the IDs observed at the acquisitions are pairwise distinct ... *)
Theorem ids_unique : forall caching s F acq, reachable caching s F acq -> NoDup acq.
Proof. exact ids_unique_pf. Qed.

(* ... and at every moment all live and pooled nodes carry pairwise distinct IDs (each reset
   observed an ID no other held node has). *)
Theorem held_ids_distinct : forall caching s F acq,
  reachable caching s F acq -> NoDup (map (id_of (heap s)) (addrs_f F ++ pool s)).
Proof. exact held_ids_distinct_pf. Qed.

(* Every reset (the only writer of IDs besides allocation, which resets too) takes the next
   counter value, and everything observed before - every ID in the heap, every ID handed out -
   is at most the old counter: a reset observes an ID different from every earlier acquisition. *)
Theorem reset_takes_next_id : forall site s n s',
  reset site s n = Ok s' ->
  id_of (heap s') n = (next_id s + 1)%Z /\ next_id s' = (next_id s + 1)%Z /\
  heap s' !! n = Some (blank (next_id s + 1)).
Proof. exact reset_takes_next_id_pf. Qed.

Theorem ids_below_counter : forall caching s F acq,
  reachable caching s F acq ->
  (forall a x, heap s !! a = Some x -> (n_id x <= next_id s)%Z) /\
  (forall i, i ∈ acq -> (i <= next_id s)%Z).
Proof. exact ids_below_counter_pf. Qed.

(* For every interleaving of the goroutines' atomic fetch-and-add steps, all the IDs observed
   are pairwise distinct. *)
Theorem ids_unique_par : forall sched c, NoDup (map snd (snd (par_run c sched))).
Proof. exact par_run_nodup. Qed.

(* (4) The slot discipline of the readers (sp.stream / r.target cleared on Release; Read removes
   what is still in the slot) together with the ingester's release-once protocol: for every
   interleaving of reads and releases, every removal the reader issues is of a node it delivered
   and no node is removed twice - the precondition "n is live" of RemoveAndReleaseTree.  The
   delivered nodes are pairwise distinct because they are live when delivered (live_forest_nodup). *)
Theorem reader_slot_no_double_release : forall cs,
  NoDup (deliveries cs) ->
  let rm := snd (reader_run (mkR None None) cs) in
  NoDup rm /\ (forall r, r ∈ rm -> r ∈ deliveries cs).
Proof. exact reader_slot_pf. Qed.

(* (5) readers_respect_api, stream readers.  Model/HeapReaders.v executes the XML / JSON stream
   reader models of Model/Stream.v (C04, C17) on the node heap: the reader's right-spine zipper is
   kept with addresses, every structural action is issued as the idr API call the Go code makes
   (CreateXMLNode/CreateJSONNode + AddChild; RemoveAndReleaseTree of the rejected or released
   stream node), through [do_op], which stops (None) if the call's precondition [pre_b] is false in
   the state it is issued in or the call does not return normally.
   For every target (pm, pred, filter flags), every token list, every Release pattern, pooling on
   or off, every legal pool chooser, and every good start state (any reachable state is good):
   the run never stops; the final state is good (Rep holds); [ext]: the logged calls, replayed
   by run2 - which checks pre_b before each call - lead from the start state to the final one;
   and [deliv_ok]: at each delivery the state is good, the delivered node's addressed subtree is
   live, tree_ok (all links sound), and its payload tree read from the heap IS the abstract
   Base.Tree tree the reader model delivers.  This is what licenses the abstract trees used by
   the other models. *)
Theorem reachable_is_good : forall caching s F acq log,
  reachable caching s F acq -> good caching (mkM s F acq log).
Proof. exact reachable_good_pf. Qed.

Theorem xml_reader_respects_api : forall pm pred hf oc caching choose,
  legal caching choose ->
  forall m0 rel toks, good caching m0 ->
  exists r0 r' ds,
    reader_init caching choose m0 (FXml [] []) = Some r0 /\
    hx_run pm pred hf oc caching choose x_init r0 rel toks = Some (r', ds) /\
    good caching (r_m r') /\ ext caching m0 (r_m r') /\
    Forall2 (deliv_ok caching) ds (map fst (fst (xrun pm pred hf oc x_init rel toks))).
Proof. exact xml_reader_pf. Qed.

(* The JSON reader additionally writes FormatSpecific of the current node directly
   (sp.cur.FormatSpecific = JSONTypeOf(sp.cur) | JSONObj): not an API call, so there is no call
   log statement; the write keeps Rep (rep_set_fs) and the simulation. *)
Theorem json_reader_respects_api : forall pm pred hf oc caching choose,
  legal caching choose ->
  forall m0 rel toks, good caching m0 ->
  exists r0 r' ds,
    reader_init caching choose m0 (FJson 1) = Some r0 /\
    hj_run pm pred hf oc caching choose j_init r0 rel toks = Some (r', ds) /\
    good caching (r_m r') /\
    Forall2 (deliv_ok caching) ds (map fst (fst (jrun pm pred hf oc j_init rel toks))).
Proof. exact json_reader_pf. Qed.

(* (6) readers_respect_api, hierarchy readers.  Model/HeapReadersHier.v runs the stack machines of
   Model/Hier.v (C05: flatfile/hierarchyReader.go for csv2 / fixedlength2, and edi/reader.go) with
   addresses: every stack entry carries its recNode / segNode pointer, r.target is an address, a
   matched record is built (CreateNode plus, per column, CreateNode / AddChild / CreateNode /
   AddChild) and attached with AddChild(stackTop(1).recNode, node) - the pointer taken from the
   stack entry is checked to be the node the tree structure dictates -, recDone sets r.target =
   cur.recNode (checked to be the node completed last), and the Read prologue / Release remove
   r.target.  [cols] (the columns of a record) and [nm] (names) are arbitrary functions, try_leaf
   any leaf matcher.  For every declaration tree, unit list, fuel, pooling mode, legal pool
   chooser and good start state: the run never stops on a failed precondition or pointer check;
   the final state is good; the logged calls replay through run2 (pre_b checked per call); every
   delivered address is the root of a live, tree_ok subtree in a good state; and the instances
   delivered are exactly those Model/Hier.v delivers (the abstract part of every addressed step
   is the C05 step: erasure). *)
Theorem hier_reader_respects_api : forall caching choose nm cols try_leaf,
  legal caching choose ->
  forall m0 ds us fuel, good caching m0 ->
  exists a0 a' dl,
    init_a caching choose nm m0 ds us = Some a0 /\
    run_a caching (hstep_a caching choose nm cols try_leaf) fuel a0 = Some (a', dl) /\
    good caching (r_m (a_rd a')) /\ ext caching m0 (r_m (a_rd a')) /\
    Forall (hdeliv_ok caching) dl /\
    map snd dl = fst (Hier.run (hstep try_leaf) fuel (Hier.init ds us)).
Proof. exact hier_reader_pf. Qed.

Theorem edi_reader_respects_api : forall caching choose nm cols try_leaf,
  legal caching choose ->
  forall m0 ds us fuel, good caching m0 ->
  exists a0 a' dl,
    init_a caching choose nm m0 ds us = Some a0 /\
    run_a caching (edi_step_a caching choose nm cols try_leaf) fuel a0 = Some (a', dl) /\
    good caching (r_m (a_rd a')) /\ ext caching m0 (r_m (a_rd a')) /\
    Forall (hdeliv_ok caching) dl /\
    map snd dl = fst (Hier.run (edi_step try_leaf) fuel (Hier.init ds us)).
Proof. exact edi_reader_pf. Qed.

(* (7) An error, and any Read after a terminal result, touches no node (the C12-r42 class: a reader
   that "cleans up" its stack on a fatal error releases the stale pointer of an already released
   target a second time).  Every step of the hierarchy / EDI machines that RETURNS - a delivery,
   EOF, ErrFewerThanMinOccurs, unexpected data, a model panic - returns in exactly the state it was
   called in (machine, forest, log included), for every state whatsoever; and from a state that
   satisfies the invariant, calling Read again after a terminal result, any number of times, finds
   no target to release and returns the same terminal result in the same state. *)
Theorem hier_error_issues_no_call : forall caching choose nm cols try_leaf a o a',
  hstep_a caching choose nm cols try_leaf a = Some (ARet o a') -> a' = a.
Proof. exact hstep_a_ret. Qed.

Theorem edi_error_issues_no_call : forall caching choose nm cols try_leaf a o a',
  edi_step_a caching choose nm cols try_leaf a = Some (ARet o a') -> a' = a.
Proof. exact edi_step_a_ret. Qed.

Theorem read_after_terminal_touches_nothing : forall caching step_a,
  (forall a o a', step_a a = Some (ARet o a') -> a' = a) ->
  forall a e, HInv caching a -> a_tgt a = None -> step_a a = Some (ARet (OTerm e) a) ->
  forall k, read_again caching step_a k a = Some (repeat e k, a).
Proof. exact read_again_stable. Qed.

(* (8) Tie to the source: Gen/NodeReset.v is regenerated on every run from idr/node.go - the fields of
   `type Node struct` and the assignments of (n *Node).reset().  The model's [blank] (what fresh_blank,
   pool blankness and the recycle specification are stated with) is the effect of the EXTRACTED
   reset() on any node; the extracted field list is the model's; reset() assigns every field.  A
   field added to Node, or one that reset() forgets, stops these from checking. *)
Theorem reset_source_is_blank : forall id x, go_reset id x = Some (blank id).
Proof. exact go_reset_blank. Qed.

Theorem node_fields_modelled : node_fields = model_fields.
Proof. exact node_fields_ok. Qed.

Theorem reset_assigns_every_field : forall f, In f node_fields -> In f (map fst node_reset_assigns).
Proof. exact reset_covers_all_fields. Qed.

(* ---- the link surgery is the source's (Gen/NodeOps.v) ------------------------------------------ *)
(* The extractor turns the bodies of idr.AddChild and of idr.RemoveAndReleaseTree (up to its
   recycle call) into pointer programs; Model/HeapOpsGen.v runs such a program on the heap (a
   selector is a load, an assignment a store, a nil or dangling dereference a panic).  On EVERY heap
   - well-formed or not - and for ALL arguments - aliased, dangling, first/middle/last/only child -
   the extracted program and the hand transcription the other theorems are about end in the same
   heap, or both panic ([oeq] ignores which statement panicked). *)
Theorem add_child_source_is_model : forall h p n,
  oeq (exec_prog [p; n] h add_child_prog) (add_child h p n).
Proof. exact add_child_gen_eq. Qed.

Theorem unlink_source_is_model : forall h n,
  oeq (exec_prog [n] h remove_unlink_prog) (unlink h n).
Proof. exact unlink_gen_eq. Qed.

(* ... so refinement (1) holds with the link surgery done by the extracted programs: from every
   represented state, for every call whose precondition holds - attaching under a parent with or
   without children, removing a child at any position - the source's pointer updates neither
   panic nor leave a broken link, and the forest changes by exactly graft / prune. *)
Theorem source_links_refine_forest : forall caching s F o,
  Rep caching s F -> pre_b caching s F o = true ->
  exists s' ret, step_src caching s o = Ok (s', ret) /\ Rep caching s' (aeffect s F o).
Proof. exact source_refines_forest_pf. Qed.

(* The case check the harness evaluates replays every history with step_src - the implementation's
   observed field changes are compared with the run of the extracted programs - and it is the
   check stated with the hand transcriptions. *)
Theorem case_check_runs_extracted_programs : forall c, check_case_src c = check_case c.
Proof. exact check_case_src_eq. Qed.

(* ---- non-vacuity ------------------------------------------------------------------------------ *)
(* A history that builds a tree, removes a middle subtree (two nodes are reset and pooled) and
   creates two nodes that reuse the pooled ones, attaching one of them elsewhere. *)
Definition ex_ops : list op :=
  [OCreate Fresh 0 [] FNone; OCreate Fresh 1 (hx "61"%string) FNone; OCreate Fresh 2 (hx "62"%string) (FJson 4);
   OCreate Fresh 1 (hx "63"%string) (FXml (hx "6e"%string) []); OAdd 1 2; OAdd 1 3; OAdd 1 4;
   OCreate Fresh 2 [] FNone; OAdd 3 5; ORemove 3;
   OCreate (FromPool 3) 1 [] FNone; OCreate (FromPool 5) 1 [] FNone; OAdd 4 5].

Example c12_reachable_nonvacuous :
  exists s acq, reachable true s [AT 1 [AT 2 []; AT 4 [AT 5 []]]; AT 3 []]%positive acq /\
                pool s = [] /\ length acq = 7.
Proof.
  assert (H : exists s acq, run2 true init [] [] ex_ops
               = Some (s, [AT 1 [AT 2 []; AT 4 [AT 5 []]]; AT 3 []]%positive, acq) /\ pool s = [] /\ length acq = 7).
  { vm_compute. eexists. eexists. split; [reflexivity|split; reflexivity]. }
  destruct H as (s & acq & Hrun & Hp & Hl). exists s, acq. split; [|auto].
  eapply run2_reachable; [apply reach_init|exact Hrun].
Qed.

(* the premises of heap_refines_forest are met by a state with a non-empty pool and a removal of
   a middle child with children *)
Example c12_refines_nonvacuous :
  exists s F, Rep true s F /\ pre_b true s F (ORemove 3) = true /\ pool s <> [] /\
              aeffect s F (ORemove 3) = [AT 1 [AT 2 []; AT 4 []]]%positive.
Proof.
  assert (H : exists s acq, run2 true init [] [] (firstn 9 ex_ops ++ [OCreate Fresh 0 [] FNone; ORemove 6])
               = Some (s, [AT 1 [AT 2 []; AT 3 [AT 5 []]; AT 4 []]]%positive, acq) /\ pool s = [6%positive]).
  { vm_compute. eexists. eexists. split; reflexivity. }
  destruct H as (s & acq & Hrun & Hp). exists s, [AT 1 [AT 2 []; AT 3 [AT 5 []]; AT 4 []]]%positive.
  split; [|split; [|split]].
  - eapply reachable_rep. eapply run2_reachable; [apply reach_init|exact Hrun].
  - reflexivity.
  - rewrite Hp. discriminate.
  - reflexivity.
Qed.


(* the extracted programs run the example history (appends to empty and non-empty child lists, a
   removal of a middle child with a child) to the same state as the model; and both panic on a
   dangling argument *)
Example c12_source_links_nonvacuous :
  (exists s r, run_src true init ex_ops = Ok s /\ run true init ex_ops = Ok (s, r) /\ pool s = []) /\
  exec_prog [7%positive] (heap init) remove_unlink_prog = Panic 0 /\ unlink (heap init) 7 = Panic 20 /\
  length add_child_prog = 4 /\ length remove_unlink_prog = 1.
Proof. vm_compute. split; [eexists; eexists; split; [reflexivity|split; reflexivity]|]. repeat split. Qed.

(* The API preconditions are needed (each of these was also run on the Go code, which does the
   same): releasing a node twice puts it into the pool twice, and two later creates hand out the
   same node; re-attaching an attached node, or attaching a node below itself, leaves links that
   no forest explains. *)
Example pre_needed_double_release :
  match run true init [OCreate Fresh 1 [] FNone; ORemove 1; ORemove 1;
                       OCreate (FromPool 1) 1 [] FNone; OCreate (FromPool 1) 1 [] FNone] with
  | Ok (_, rets) => rets = [Some 1; None; None; Some 1; Some 1]%positive
  | _ => False
  end.
Proof. vm_compute. reflexivity. Qed.

Example pre_needed_detached_root :
  match run true init [OCreate Fresh 1 [] FNone; OCreate Fresh 1 [] FNone; OCreate Fresh 1 [] FNone;
                       OAdd 1 3; OAdd 2 3] with
  | Ok (s, _) => rep_b s [AT 1 [AT 3 []]; AT 2 []]%positive = false /\
                 rep_b s [AT 1 []; AT 2 [AT 3 []]]%positive = false
  | _ => False
  end.
Proof. vm_compute. split; reflexivity. Qed.

Example pre_needed_not_own_ancestor :
  match run true init [OCreate Fresh 1 [] FNone; OAdd 1 1] with
  | Ok (s, _) => (match heap s !! 1%positive with
                  | Some x => n_parent x = Some 1%positive /\ n_first x = Some 1%positive
                  | None => False end)
  | _ => False
  end.
Proof. vm_compute. split; reflexivity. Qed.

(* the reader bridge on concrete inputs: <r><n a="1">x</n><n>y</n></r> with target /r/n, pooling on,
   the chooser that always takes the most recently pooled node; two deliveries, the second record
   reuses the nodes of the first *)
Definition ex_choose (s : st) : choice := match pool s with a :: _ => FromPool a | [] => Fresh end.
Definition ex_m0 : mach := mkM init [] [] [].
Definition ex_xtoks : list xtoken :=
  [XStart (hx "72"%string) (FXml [] []) [];
   XStart (hx "6e"%string) (FXml [] []) [(hx "61"%string, FXml [] [], hx "31"%string)]; XText (hx "78"%string); XEnd;
   XStart (hx "6e"%string) (FXml [] []) []; XText (hx "79"%string); XEnd; XEnd].
Definition ex_pm (chain : list name) : bool :=
  list_eqb name_eqb chain [([], hx "72"%string); ([], hx "6e"%string)].

Example c12_xml_bridge_nonvacuous :
  legal true ex_choose /\
  match reader_init true ex_choose ex_m0 (FXml [] []) with
  | Some r0 =>
      match hx_run ex_pm ptrue false false true ex_choose x_init r0 [true; false] ex_xtoks with
      | Some (r', ds) => length ds = 2 /\ length (m_log (r_m r')) = 17 /\
                         existsb (fun o => match o with OCreate (FromPool _) _ _ _ => true | _ => false end) (m_log (r_m r')) = true
      | None => False
      end
  | None => False
  end.
Proof.
  split.
  - intros s. unfold ex_choose. destruct (pool s) eqn:E; [exact Logic.I|]. split; [reflexivity|]. apply elem_of_cons. auto.
  - vm_compute. repeat split.
Qed.

(* csv2-like hierarchy: one target record declaration with two occurrences; two deliveries *)
Example c12_hier_bridge_nonvacuous :
  let ds := [D 1 false true 0 None (LName 7) []] in
  let us := [U 7 100; U 7 101] in
  match init_a true ex_choose (fun _ => []) ex_m0 ds us with
  | Some a0 =>
      match run_a true (hstep_a true ex_choose (fun _ => []) (fun _ _ => [([], [])]) flat_leaf) 40 a0 with
      | Some (a', dl) => length dl = 2 /\ map snd dl = fst (Hier.run (hstep flat_leaf) 40 (Hier.init ds us))
      | None => False
      end
  | None => False
  end.
Proof. vm_compute. split; reflexivity. Qed.

(* a target with min 2 and one instance only: one delivery, then ErrFewerThanMinOccurs at EOF;
   three more Reads return the same error and leave the state as it is *)
Example c12_terminal_nonvacuous :
  let ds := [D 1 false true 2 None (LName 7) []] in
  let us := [U 7 100] in
  let stepf := hstep_a true ex_choose (fun _ => []) (fun _ _ => [([], [])]) flat_leaf in
  match init_a true ex_choose (fun _ => []) ex_m0 ds us with
  | Some a0 =>
      match run_a true stepf 40 a0 with
      | Some (a', dl) =>
          length dl = 1 /\ stepf a' = Some (ARet (OTerm (TErrMin 1 1)) a') /\
          read_again true stepf 3 a' = Some ([TErrMin 1 1; TErrMin 1 1; TErrMin 1 1], a')
      | None => False
      end
  | None => False
  end.
Proof. vm_compute. repeat split. Qed.

Example c12_reader_nonvacuous :
  snd (reader_run (mkR None None)
         [CRead (Some 1); CRelease; CRead None; CRelease; CRead (Some 2); CRead (Some 3); CRelease; CRelease]%positive)
  = [1; 2; 3]%positive.
Proof. reflexivity. Qed.

Example c12_par_nonvacuous :
  map snd (snd (par_run 10 [0; 1; 0; 2; 1]%nat)) = [11; 12; 13; 14; 15]%Z.
Proof. reflexivity. Qed.
