(* C12 Node trees stay structurally sound and pooled nodes are never aliased.
   Statements only; proofs in Proofs/Heap*.v. *)
From Coq Require Import List NArith ZArith Bool.
From stdpp Require Import pmap.
From OV Require Import Base.Bytes Base.Tree Model.Heap Proofs.HeapIds.
Import ListNotations.

(* A node returned by create has no links, the requested type and data, and the requested
   format-specific value (nil for plain CreateNode) - for every pool choice, pooling on or off. *)
Theorem fresh_blank_partial : forall caching s c ty data fs s' a,
  pool_blank s ->
  create caching s c ty data fs = Ok (s', a) ->
  exists id, heap s' !! a = Some (mkNode id None None None None None ty data fs).
Proof. exact create_blank. Qed.

(* For every interleaving of the goroutines' atomic fetch-and-add steps, all the IDs observed
   are pairwise distinct. *)
Theorem ids_unique_par : forall sched c, NoDup (map snd (snd (par_run c sched))).
Proof. exact par_run_nodup. Qed.
