(* C07 EDI segments are tokenized exactly at unescaped delimiters.  Statements only; proofs in
   Proofs/Edi*.v.  Model: Model/Edi.v (go-corelib ByteIndexWithEsc / ByteSplitWithEsc /
   ByteUnescape, NonValidatingReader.readToken, rawSegToNode, and the generator's inverse). *)
From Coq Require Import List NArith Bool Arith.
From Coq Require String.
From Coq.Strings Require Import Byte.
Import ListNotations.
From OV Require Import Base.Bytes Base.Utf8 Model.Edi Proofs.Edi.

(* ByteIndexWithEsc, for EVERY byte string s, every non-empty delim and every esc (empty or not):
   the result is the first position at which delim occurs without being preceded by an odd run of
   esc sequences; None (-1) exactly when there is no such position; the slice expressions never
   go out of range and the loop ends within its fuel. *)
Theorem index_with_esc_spec : forall s delim esc, delim <> [] ->
  exists r, index_with_esc s delim esc = Ok r /\
    match r with
    | Some i => unesc_occ esc s delim i /\ forall j, j < i -> ~ unesc_occ esc s delim j
    | None => forall j, ~ unesc_occ esc s delim j
    end.
Proof. exact index_with_esc_spec. Qed.

(* ByteSplitWithEsc, for every s / non-empty delim / esc: joining the pieces with delim gives s
   back, and no piece contains an unescaped delim. *)
Theorem split_concat : forall s delim esc, delim <> [] ->
  exists l, split_with_esc s delim esc = Ok l /\ join delim l = s /\
            Forall (fun p => forall j, ~ unesc_occ esc p delim j) l.
Proof. exact split_concat. Qed.

(* ByteUnescape (copy variant) never panics or runs out of fuel and never grows its input. *)
Theorem unescape_total : forall b esc, exists o, unescape b esc = Ok o /\ length o <= length b.
Proof.
  intros b esc. destruct (unescape_total b esc) as [o Ho]. exists o. split; [exact Ho|].
  exact (unescape_length b esc o Ho).
Qed.

(* unescape (escape d) = d for ALL byte strings d: hs are the (ASCII) first bytes of the
   delimiters and of the release character; the release character may be absent (esc = []). *)
Theorem unescape_escape : forall hs esc d, Forall ascii_byte hs -> rel_ok hs esc ->
  unescape (escape hs esc d) esc = Ok d.
Proof. exact unescape_escape. Qed.

(* ---- non-vacuity and the documented corner cases -------------------------------------------- *)
Local Open Scope string_scope.
Import String.StringSyntax.
(* "a??b?*c" with release "?" and delimiter "*": the only "*" is escaped *)
Example index_with_esc_ex :
  index_with_esc (hx "613f3f623f2a63") (hx "2a") (hx "3f") = Ok None /\
  index_with_esc (hx "613f3f2a63") (hx "2a") (hx "3f") = Ok (Some 3).
Proof. split; vm_compute; reflexivity. Qed.

Example unescape_escape_ex :
  rel_ok (hx "7e2a3f") (hx "3f") /\ Forall ascii_byte (hx "7e2a3f") /\
  escape (hx "7e2a3f") (hx "3f") (hx "613f2a7e") = hx "613f3f3f2a3f7e".
Proof.
  split; [split; [reflexivity|intros b []]|]. split; [|reflexivity].
  repeat constructor.
Qed.

(* unescape_truncation_note: a release character that is last, or followed by an undecodable
   byte, or by a literal U+FFFD, makes ByteUnescape drop everything from there on. *)
Example unescape_truncation_note :
  unescape (hx "613f") (hx "3f") = Ok (hx "61") /\
  unescape (hx "613fff62") (hx "3f") = Ok (hx "61") /\
  unescape (hx "613fefbfbd62") (hx "3f") = Ok (hx "61").
Proof. repeat split; vm_compute; reflexivity. Qed.
