(* C07 EDI segments are tokenized exactly at unescaped delimiters.  Statements only; proofs in
   Proofs/Edi.v and Proofs/EdiRT.v.  Model: Model/Edi.v (go-corelib ByteIndexWithEsc /
   ByteSplitWithEsc / ByteUnescape, NonValidatingReader.Read / readToken, rawSegToNode, and the
   generator's inverse edi_encode). *)
From Coq Require Import List NArith Bool Arith.
From Coq Require String.
From Coq.Strings Require Import Byte.
Import ListNotations.
From OV Require Import Base.Bytes Base.Utf8 Base.ErrClass Gen.Continuable Gen.EdiShape
  Model.Edi Proofs.Edi Proofs.EdiUnits Proofs.EdiRT Proofs.EdiCover Proofs.EdiSpec.

(* ByteIndexWithEsc, for EVERY byte string s, every non-empty delim and every esc (empty or not):
   the result is the first position at which delim occurs without being preceded by an odd run of
   esc sequences; None (-1) exactly when there is no such position; the slice expressions never
   go out of range and the loop ends within its fuel. *)
Theorem index_with_esc_spec : forall s delim esc, delim <> [] ->
  exists r, index_with_esc s delim esc = Ok r /\
    match r with
    | Some i => unesc_occ esc s delim i /\ forall j, j < i -> ~ unesc_occ esc s delim j
    | None => forall j, ~ unesc_occ esc s delim j
    end.
Proof. exact index_with_esc_spec. Qed.

(* ByteSplitWithEsc, for every s / non-empty delim / esc: joining the pieces with delim gives s
   back, and no piece contains an unescaped delim. *)
Theorem split_concat : forall s delim esc, delim <> [] ->
  exists l, split_with_esc s delim esc = Ok l /\ join delim l = s /\
            Forall (fun p => forall j, ~ unesc_occ esc p delim j) l.
Proof. exact split_concat. Qed.

(* ByteUnescape (copy variant) never panics or runs out of fuel and never grows its input. *)
Theorem unescape_total : forall b esc, exists o, unescape b esc = Ok o /\ length o <= length b.
Proof.
  intros b esc. destruct (unescape_total b esc) as [o Ho]. exists o. split; [exact Ho|].
  exact (unescape_length b esc o Ho).
Qed.

(* unescape (escape d) = d for ALL byte strings d (valid UTF-8 or not), for the rune-wise encoder
   and every configuration with cfg_ok: in particular the truncating branch of ByteUnescape is
   never reached on encoder output. *)
Theorem unescape_escape : forall c, cfg_ok c -> forall d,
  unescape (escape (heads (specials c)) (optb (c_rel c)) d) (optb (c_rel c)) = Ok d.
Proof. exact unescape_E. Qed.

(* the byte-wise encoder: hs are ASCII first bytes of the delimiters and of the release
   character; the release character may be absent (esc = []) *)
Theorem unescape_escape_ascii : forall hs esc d, Forall ascii_byte hs -> rel_ok hs esc ->
  unescape (escape_b hs esc d) esc = Ok d.
Proof. exact unescape_escape_b. Qed.

(* with ASCII first bytes the two encoders are the same function *)
Theorem escape_ascii : forall hs rel d, Forall ascii_byte hs -> escape hs rel d = escape_b hs rel d.
Proof. exact escape_ascii. Qed.

(* runeCountAndHasOnlyCRLF: a token is skipped exactly when all its bytes are CR or LF *)
Theorem crlf_only_token : forall t, only_crlf t = forallb is_crlf t.
Proof.
  intro t. destruct (forallb is_crlf t) eqn:E.
  - apply only_crlf_all. exact E.
  - apply only_crlf_non. apply forallb_false_ex. exact E.
Qed.

(* edi_roundtrip.  For every delimiter configuration with cfg_ok (delimiters in use and release
   character: non-empty byte strings -- single- or multi-byte, ASCII or not -- whose first rune
   utf8.DecodeRune decodes and is not U+FFFD, e.g. any valid UTF-8 string; first bytes pairwise
   distinct; no first byte at a later position of any of them; with LF as segment delimiter the
   release character does not end with CR) and all logical segments with segx_ok (shape: >= 1 element, >= 1 repetition, >= 1
   component, exactly one where the delimiter is absent; data arbitrary bytes when there is a
   release character, otherwise free of delimiter first bytes; name non-empty; the CR/LF rules:
   a CR before the delimiter / blank lines only where the rules eat them, when LF delimits, the
   last value not ending in CR and, if it is empty, the delimiter before it not ending in CR
   (no_cr_end: a condition on the logical values; edi_roundtrip_enc states it on the encoding), a name with a non-CR/LF byte when the delimiter is CR/LF
   only), and for every input that -- after ignore_crlf stripping, if configured -- is the
   encoding of those segments: NonValidatingReader delivers exactly the logical
   (ElemIndex, CompIndex, escaped data) of every segment, in order, then EOF; and unescaping
   every delivered datum gives the logical value back. *)
Theorem edi_roundtrip : forall c, cfg_ok c -> forall segs inp,
  Forall (segx_ok c) segs ->
  (if c_ignore_crlf c then strip_crlf inp else inp) = edi_encode c segs ->
  nv_read_all c inp = Ok (map (fun x => exp_seg c (ls_seg x)) segs) /\
  forall d, unescape (escape (heads (specials c)) (optb (c_rel c)) d) (optb (c_rel c)) = Ok d.
Proof.
  intros c Hc segs inp Hs Hin. split; [exact (roundtrip c Hc segs inp Hs Hin)|exact (unescape_E c Hc)].
Qed.

(* edi_elem_nodes.  For EVERY list of element declarations (two declarations may name the same
   (index, component)) rawSegToNode over the tokenised segment yields, per declaration in order,
   one node per repetition holding the unescaped logical value; a declaration matching nothing
   yields its default / "" (empty_if_missing) / makes the segment fatal (None). *)
Theorem edi_elem_nodes : forall c, cfg_ok c -> forall s decls k,
  seg_to_node (optb (c_rel c)) k decls (exp_elems c 0 s) = Ok (exp_nodes k decls s).
Proof. exact elem_nodes. Qed.

(* both together, through the full reader over one segment declaration *)
Theorem edi_full_roundtrip : forall c, cfg_ok c -> forall segs inp sname decls,
  Forall (segx_ok c) segs ->
  (forall x, In x segs ->
     escape (heads (specials c)) (optb (c_rel c)) (seg_name (ls_seg x)) = sname) ->
  (if c_ignore_crlf c then strip_crlf inp else inp) = edi_encode c segs ->
  full_read_all c sname decls inp = Ok (exp_full decls (map ls_seg segs)).
Proof. exact full_roundtrip. Qed.

(* The same with the CR condition stated on the encoding (has_suffix (enc_seg c s) [CR] = false
   instead of no_cr_end): the more general form the two theorems above are derived from. *)
Theorem segx_ok_enc_of : forall c, cfg_ok c -> forall x, segx_ok c x -> segx_ok_enc c x.
Proof. exact segx_ok_enc_of. Qed.

Theorem edi_roundtrip_enc : forall c, cfg_ok c -> forall segs inp,
  Forall (segx_ok_enc c) segs ->
  (if c_ignore_crlf c then strip_crlf inp else inp) = edi_encode c segs ->
  nv_read_all c inp = Ok (map (fun x => exp_seg c (ls_seg x)) segs).
Proof. exact roundtrip_enc. Qed.

Theorem edi_full_roundtrip_enc : forall c, cfg_ok c -> forall segs inp sname decls,
  Forall (segx_ok_enc c) segs ->
  (forall x, In x segs ->
     escape (heads (specials c)) (optb (c_rel c)) (seg_name (ls_seg x)) = sname) ->
  (if c_ignore_crlf c then strip_crlf inp else inp) = edi_encode c segs ->
  full_read_all c sname decls inp = Ok (exp_full decls (map ls_seg segs)).
Proof. exact full_roundtrip_enc. Qed.

(* ---- nothing is lost (no cfg_ok: every configuration with non-empty segment and element
   delimiters, every input) ------------------------------------------------------------------------ *)

(* ignore_crlf drops CR and LF bytes and nothing else, in place *)
Theorem strip_crlf_spec : forall inp, strip_crlf inp = filter (fun b => negb (is_crlf b)) inp.
Proof. exact strip_crlf_spec. Qed.

(* edi_tokens_cover.  NonValidatingReader never panics or loops; the (stripped) input is the
   concatenation of the tokens it scans plus a rest that holds no unescaped segment delimiter;
   every token ends with its first unescaped segment delimiter (is_token); the tokens made of CR/LF
   only are skipped (crlf_only_token) and every other token p ++ seg yields one result: its pieces
   n (elements x repetitions x components), joined again with the delimiters, are p -- or p without
   the one CR that the LF rule drops -- and the RawSegElems are exactly those pieces, numbered
   (tok_accounted).  So every input byte is in a RawSegElem, is a delimiter byte, is a CR/LF
   dropped as the rules say, or belongs to the unterminated rest. *)
Theorem edi_tokens_cover : forall c inp, c_seg c <> [] -> c_elem c <> [] ->
  let inp' := if c_ignore_crlf c then strip_crlf inp else inp in
  exists toks rest results,
    nv_read_all c inp = Ok results /\
    inp' = concat toks ++ rest /\
    Forall (is_token (c_seg c) (optb (c_rel c))) toks /\
    (forall j, ~ unesc_occ (optb (c_rel c)) rest (c_seg c) j) /\
    Forall2 (tok_accounted c) (filter (fun t => negb (only_crlf t)) toks) results.
Proof. exact nv_read_all_cover. Qed.

(* edi_tokens_complete.  The full statement -- "the rest is always empty: every byte of the input
   ends up in some token" -- is false of the code (edi_trailing_refuted below; DESIGN section 6
   F8, scanner flag EofNotAsDelim extracted into Gen/EdiConsts.v).  Under the guard "the input is
   a sequence of terminated segments" (inp' = concat toks with every member a token) it holds:
   the scanner returns exactly those tokens and every one is accounted for. *)
Theorem edi_tokens_complete : forall c inp toks, c_seg c <> [] -> c_elem c <> [] ->
  let inp' := if c_ignore_crlf c then strip_crlf inp else inp in
  inp' = concat toks -> Forall (is_token (c_seg c) (optb (c_rel c))) toks ->
  scan_tokens (S (length inp')) inp' (c_seg c) (optb (c_rel c)) = Ok toks /\
  exists results, nv_read_all c inp = Ok results /\
    Forall2 (tok_accounted c) (filter (fun t => negb (only_crlf t)) toks) results.
Proof.
  intros c inp toks Hs He inp' Hin Ht. split.
  - rewrite Hin. apply scan_tokens_terminated; [exact Hs|exact Ht|apply Nat.lt_succ_diag_r].
  - exact (nv_read_all_complete c inp toks Hs He Hin Ht).
Qed.

(* edi_trailing_refuted (F8): A*1~A*2~Z*lost -- the two terminated segments are delivered, the
   bytes after the last terminator are in no token and in no result, and EOF is clean. *)
Theorem edi_trailing_refuted :
  exists c inp, c_seg c <> [] /\ c_elem c <> [] /\ c_ignore_crlf c = false /\
    exists toks results,
      scan_tokens (S (length inp)) inp (c_seg c) (optb (c_rel c)) = Ok toks /\
      concat toks <> inp /\
      nv_read_all c inp = Ok results /\ length results = 2.
Proof.
  exists (mkCfg [x7e] [x2a] None None None false).
  exists [x41; x2a; x31; x7e; x41; x2a; x32; x7e; x5a; x2a; x6c; x6f; x73; x74].
  split; [discriminate|]. split; [discriminate|]. split; [reflexivity|].
  eexists. eexists. split; [vm_compute; reflexivity|]. split; [discriminate|].
  split; [vm_compute; reflexivity|reflexivity].
Qed.

(* ---- rawSegToNode over ALL raw segments and declarations; error class; validation ---------------- *)

(* seg_to_node_spec.  For every release character, every list of raw elements (any tokenisation
   result, not only encoder output) and every declaration list: rawSegToNode never panics and
   yields, per declaration in order, one node per raw element with that element index and
   component index (1 when none is declared: Elem.compIndex, extracted) holding its unescaped
   data; nothing matching gives the default when empty_if_missing or a default is declared (the
   condition is extracted from the source), else the segment is an error. *)
Theorem seg_to_node_spec : forall rel raw decls k,
  seg_to_node rel k decls raw = Ok (nodes_spec rel k decls raw).
Proof. exact seg_to_node_spec. Qed.

(* the full reader over one declaration never panics, and a fatal result is the last one *)
Theorem full_results_total : forall rel sname decls segs,
  exists l, full_results rel sname decls segs = Ok l.
Proof. exact full_results_total. Qed.

Theorem full_results_fatal_last : forall rel sname decls segs l,
  full_results rel sname decls segs = Ok l ->
  forall i, nth_error l i = Some RFatal -> S i = length l.
Proof. exact full_results_fatal_last. Qed.

(* edi_errors_terminal.  The errors for "missing segment name" (as the full reader passes it on)
   and for a declared element that is absent without default are, by the constructors found in
   the source (Gen/EdiShape.v), the format's fatal type; by the extracted IsContinuableError
   bodies (Gen/Continuable.v) neither the EDI reader nor the ingester calls it continuable. *)
Theorem edi_errors_terminal :
  Forall (fun k => k = RcFatal /\ continuable_edi k = false /\
                   continuable_ingester continuable_edi k = false)
         [edi_missing_name_class; edi_reader_wrap_class; edi_missing_elem_class].
Proof. exact errors_terminal. Qed.

(* edi_validation_gap.  cfg_ok is NOT what schema validation enforces: the JSON schema (minLength
   values extracted into Gen/EdiShape.v) only demands non-empty strings.  There is a configuration
   it accepts and a well-formed segment for which the round trip fails. *)
Theorem edi_validation_gap : exists c segs,
  schema_valid c /\ Forall (segx_ok c) segs /\ ~ cfg_ok c /\
  nv_read_all c (edi_encode c segs) <> Ok (map (fun x => exp_seg c (ls_seg x)) segs).
Proof. exact validation_gap. Qed.

(* The first version of these theorems (first bytes ASCII, byte-wise encoder) as corollaries. *)
Theorem cfg_ok_ascii_ok : forall c, cfg_ok_ascii c -> cfg_ok c.
Proof. exact cfg_ok_ascii_ok. Qed.

Corollary edi_roundtrip_ascii : forall c, cfg_ok_ascii c -> forall segs inp,
  Forall (segx_ok c) segs ->
  (if c_ignore_crlf c then strip_crlf inp else inp) = edi_encode c segs ->
  nv_read_all c inp = Ok (map (fun x => exp_seg c (ls_seg x)) segs) /\
  forall d, escape (heads (specials c)) (optb (c_rel c)) d = escape_b (heads (specials c)) (optb (c_rel c)) d /\
            unescape (escape_b (heads (specials c)) (optb (c_rel c)) d) (optb (c_rel c)) = Ok d.
Proof.
  intros c Hc segs inp Hs Hin. pose proof (cfg_ok_ascii_ok c Hc) as Hc'.
  split; [exact (roundtrip c Hc' segs inp Hs Hin)|].
  intro d. destruct Hc as (_ & _ & _ & Ha & _).
  rewrite <- (escape_ascii _ _ d Ha). split; [reflexivity|exact (unescape_E c Hc' d)].
Qed.

Corollary edi_elem_nodes_ascii : forall c, cfg_ok_ascii c -> forall s decls k,
  seg_to_node (optb (c_rel c)) k decls (exp_elems c 0 s) = Ok (exp_nodes k decls s).
Proof. intros c Hc. exact (elem_nodes c (cfg_ok_ascii_ok c Hc)). Qed.

(* ---- non-vacuity and the documented corner cases -------------------------------------------- *)
Local Open Scope string_scope.
Import String.StringSyntax.

(* "a??b?*c" with release "?" and delimiter "*": the only "*" is escaped *)
Example index_with_esc_ex :
  index_with_esc (hx "613f3f623f2a63") (hx "2a") (hx "3f") = Ok None /\
  index_with_esc (hx "613f3f2a63") (hx "2a") (hx "3f") = Ok (Some 3).
Proof. split; vm_compute; reflexivity. Qed.

Example unescape_escape_ex :
  rel_ok (hx "7e2a3f") (hx "3f") /\ Forall ascii_byte (hx "7e2a3f") /\
  escape_b (hx "7e2a3f") (hx "3f") (hx "613f2a7e") = hx "613f3f3f2a3f7e".
Proof.
  split; [split; [reflexivity|intros b []]|]. split; [|reflexivity].
  repeat constructor.
Qed.

(* unescape_truncation_note: a release character that is last, or followed by an undecodable
   byte, or by a literal U+FFFD, makes ByteUnescape drop everything from there on (unreachable
   on edi_encode output by unescape_escape). *)
Example unescape_truncation_note :
  unescape (hx "613f") (hx "3f") = Ok (hx "61") /\
  unescape (hx "613fff62") (hx "3f") = Ok (hx "61") /\
  unescape (hx "613fefbfbd62") (hx "3f") = Ok (hx "61").
Proof. repeat split; vm_compute; reflexivity. Qed.

(* A configuration with a multi-byte segment delimiter "~\n", "*", ":", "^", release "?" *)
Definition c_ex : cfg := mkCfg (hx "7e0a") (hx "2a") (Some (hx "3a")) (Some (hx "5e")) (Some (hx "3f")) false.
(* LF as segment delimiter, CRLF input and blank lines *)
Definition c_lf : cfg := mkCfg (hx "0a") (hx "2a") (Some (hx "3a")) None (Some (hx "3f")) false.

Ltac solve_cfg_ok :=
  unfold cfg_ok; cbn;
  repeat match goal with
         | |- _ /\ _ => split
         | |- _ <> _ => discriminate
         | |- NoDup _ => constructor
         | |- ~ _ => cbn; intuition discriminate
         | |- Forall _ _ => constructor
         | |- first_rune_ok _ => unfold first_rune_ok; vm_compute; discriminate
         | |- tail_clean _ _ => intros b Hb; cbn in Hb; intuition (subst; reflexivity)
         | |- _ -> _ => intro
         end.

Example cfg_ok_ex : cfg_ok c_ex.
Proof. solve_cfg_ok. all: try discriminate. Qed.

Example cfg_ok_lf : cfg_ok c_lf.
Proof.
  solve_cfg_ok. all: try discriminate.
  intros [u Hu]. destruct u as [|a [|b u]]; cbn in Hu; discriminate.
Qed.

Ltac solve_no_cr :=
  unfold no_cr_end; split;
  [ let Hc := fresh in intro Hc; apply has_suffix_cr in Hc; vm_compute in Hc; discriminate
  | let Hn := fresh in intro Hn; vm_compute in Hn; try discriminate;
    let Hc := fresh in intro Hc; apply has_suffix_cr in Hc; vm_compute in Hc; discriminate ].

Ltac solve_segx_ok :=
  unfold segx_ok, elem_ok, rep_ok, data_ok; cbn;
  repeat match goal with
         | |- no_cr_end _ _ => solve_no_cr
         | |- _ /\ _ => split
         | |- _ <> _ => discriminate
         | |- Forall _ _ => constructor
         | |- _ \/ _ => left; discriminate
         | |- _ -> _ => intro
         end.

(* Non-ASCII delimiters: segment "\n", element U+00A6 (2 bytes), component U+20AC (3 bytes),
   release U+1F600 (4 bytes); the value  a U+20AC U+2192 0xE2 b U+1F600  holds the component
   delimiter, a rune sharing its first byte with it (escaped too), that first byte alone
   (undecodable: left as it is) and the release character. *)
Definition c_utf : cfg := mkCfg (hx "0a") (hx "c2a6") (Some (hx "e282ac")) None (Some (hx "f09f9880")) false.

Example cfg_ok_utf : cfg_ok c_utf.
Proof.
  solve_cfg_ok. all: try discriminate.
  intros [u Hu]. destruct u as [|a0 [|a1 [|a2 [|a3 [|a4 u]]]]]; cbn in Hu; discriminate.
Qed.

Example edi_roundtrip_utf :
  let s := mkLS [] [ [[hx "41"]]; [[hx "61e282ace28692e262f09f9880"; hx "c2a6"]] ] false in
  segx_ok c_utf s /\
  edi_encode c_utf [s] = hx "41c2a661f09f9880e282acf09f9880e28692e262f09f9880f09f9880e282acf09f9880c2a60a" /\
  nv_read_all c_utf (edi_encode c_utf [s]) =
    Ok [SegOk (hx "41") [mkRE 0 1 (hx "41"); mkRE 1 1 (hx "61f09f9880e282acf09f9880e28692e262f09f9880f09f9880"); mkRE 1 2 (hx "f09f9880c2a6")]] /\
  unescape (hx "61f09f9880e282acf09f9880e28692e262f09f9880f09f9880") (hx "f09f9880") = Ok (hx "61e282ace28692e262f09f9880").
Proof.
  split.
  - solve_segx_ok. all: try discriminate; try reflexivity; try contradiction.
    exists x41. split; [left; reflexivity|reflexivity].
  - repeat split; vm_compute; reflexivity.
Qed.

(* segment  A * "a?b*c" : "~" ^ "r2" * ""   -- values containing release, element, component and
   segment delimiter characters, a repetition, a trailing empty element *)
Definition seg_ex : lsegx :=
  mkLS [] [ [[hx "41"]]; [[hx "613f622a63"; hx "7e"]; [hx "7232"]]; [[ [] ]] ] false.

Example segx_ok_ex : segx_ok c_ex seg_ex.
Proof. solve_segx_ok. all: try discriminate; try reflexivity; try contradiction. Qed.

Example edi_roundtrip_ex :
  edi_encode c_ex [seg_ex] = hx "412a613f3f623f2a633a3f7e5e72322a7e0a" /\
  nv_read_all c_ex (edi_encode c_ex [seg_ex]) =
    Ok [SegOk (hx "41") [mkRE 0 1 (hx "41"); mkRE 1 1 (hx "613f3f623f2a63"); mkRE 1 2 (hx "3f7e");
                         mkRE 1 1 (hx "7232"); mkRE 2 1 []]].
Proof. split; vm_compute; reflexivity. Qed.

(* CRLF input with LF delimiter, preceded by a blank "\r\n" line and a blank "\n" line *)
(* ... and an empty last element: the element delimiter "*" before it does not end with CR *)
Definition seg_lf : lsegx := mkLS [true; false] [ [[hx "41"]]; [[hx "0d0a78"]]; [[ [] ]] ] true.

Example segx_ok_lf : segx_ok c_lf seg_lf.
Proof.
  solve_segx_ok. all: try discriminate; try reflexivity; try contradiction.
  exists x41. split; [left; reflexivity|reflexivity].
Qed.

Example edi_roundtrip_lf :
  edi_encode c_lf [seg_lf] = hx "0d0a0a412a0d3f0a782a0d0a" /\
  nv_read_all c_lf (edi_encode c_lf [seg_lf]) =
    Ok [SegOk (hx "41") [mkRE 0 1 (hx "41"); mkRE 1 1 (hx "0d3f0a78"); mkRE 2 1 []]].
Proof. split; vm_compute; reflexivity. Qed.

(* declarations: index 1 twice (same raw element), component 2, a missing element with default,
   one with empty_if_missing, and a missing one without either: fatal *)
Example edi_elem_nodes_ex :
  let decls := [mkED 1 None false None; mkED 1 None false None; mkED 1 (Some 2) false None;
                mkED 7 None false (Some (hx "64")); mkED 7 (Some 3) true None] in
  exp_nodes 0 decls (ls_seg seg_ex) =
    Some [(0, hx "613f622a63"); (0, hx "7232"); (1, hx "613f622a63"); (1, hx "7232"); (2, hx "7e");
          (3, hx "64"); (4, [])] /\
  exp_nodes 0 (decls ++ [mkED 9 None false None]) (ls_seg seg_ex) = None.
Proof. split; vm_compute; reflexivity. Qed.

(* edi_dup_decl_old_refuted (DESIGN section 6 F9, repaired in /repo): with the in-place
   ByteUnescape that rawSegToNode used before, two declarations naming the same element read
   "a?b*c" and then "ab*c*c" from segment A*a??b?*c~ ; the copy variant gives "a?b*c" twice. *)
Example edi_dup_decl_old_refuted :
  let c := mkCfg (hx "7e") (hx "2a") None None (Some (hx "3f")) false in
  let decls := [mkED 1 None false None; mkED 1 None false None] in
  exists raw, nv_read_all c (hx "412a613f3f623f2a637e") = Ok [SegOk (hx "41") raw] /\
    seg_to_node_old (hx "3f") 0 decls raw = Ok (Some [(0, hx "613f622a63"); (1, hx "61622a632a63")]) /\
    seg_to_node (hx "3f") 0 decls raw = Ok (Some [(0, hx "613f622a63"); (1, hx "613f622a63")]).
Proof. eexists. split; [vm_compute; reflexivity|]. split; vm_compute; reflexivity. Qed.

(* the guard of edi_tokens_complete is satisfiable: the input A*?~1~B~ is the two tokens A*?~1~
   (an escaped terminator inside) and B~ *)
Example edi_tokens_complete_ex :
  let seg := hx "7e" in let esc := hx "3f" in
  Forall (is_token seg esc) [hx "412a3f7e317e"; hx "427e"] /\
  nv_read_all (mkCfg (hx "7e") (hx "2a") None None (Some (hx "3f")) false) (hx "412a3f7e317e427e") =
    Ok [SegOk (hx "41") [mkRE 0 1 (hx "41"); mkRE 1 1 (hx "3f7e31")]; SegOk (hx "42") [mkRE 0 1 (hx "42")]].
Proof.
  split; [|vm_compute; reflexivity].
  apply (scan_is_token (hx "7e") (hx "3f") (hx "412a3f7e317e427e")); [discriminate|vm_compute; reflexivity].
Qed.

(* seg_to_node_spec on a raw segment no encoder produces (a dangling release character, the same
   (index, component) twice): values are what ByteUnescape makes of them *)
Example seg_to_node_spec_ex :
  nodes_spec (hx "3f") 0 [mkED 1 None false None; mkED 2 (Some 2) true None; mkED 3 None false (Some (hx "64"))]
             [mkRE 0 1 (hx "41"); mkRE 1 1 (hx "613f"); mkRE 1 1 (hx "3f3f62"); mkRE 2 1 (hx "78")] =
    Some [(0, hx "61"); (0, hx "3f62"); (1, []); (2, hx "64")].
Proof. vm_compute. reflexivity. Qed.

(* the side condition is not idle: an element delimiter "*?" whose tail contains the release
   character "?" makes the segment delimiter after an empty last element look escaped, and the
   whole segment A*?~ is lost (tail_clean fails for this configuration) *)
Example tail_clean_needed :
  let c := mkCfg (hx "7e") (hx "2a3f") None None (Some (hx "3f")) false in
  edi_encode c [mkLS [] [ [[hx "41"]]; [[ [] ]] ] false] = hx "412a3f7e" /\
  nv_read_all c (hx "412a3f7e") = Ok [].
Proof. split; vm_compute; reflexivity. Qed.
