(* C15 Results and checksums are a deterministic function of schema and input.
   Statements only; proofs in Proofs/Pipeline*.v.  "Process history" = the hidden state hid; an
   earlier transform only changes hid (theorem inv_preserved of C13, run_deterministic_history
   here).  Go map iteration order does not occur in the model: the evaluator's children order is
   fixed at schema load and json.Marshal sorts keys (C02: map_order_irrelevant). *)
From Coq Require Import List NArith Bool.
From Coq.Strings Require Import Byte.
Import ListNotations.
From OV Require Import Model.Value Model.XPathFrag Model.Decl Model.Eval Proofs.PipelineC02 Gen.DeclHash.
From OV Require Model.Json Proofs.Json Proofs.PipelineCanonJson Proofs.PipelineCanonXml.
From OV Require Import Proofs.PipelineOrder Gen.ChildrenOrder.
From Coq Require Import Permutation Sorting.Sorted.
From OV Require Import Base.Bytes Base.Tree Model.Pipeline Proofs.Pipeline Proofs.PipelineInst Proofs.PipelineCanon.

Section C15.
  Variable schema V C : Type.
  Variable c0 : C.                                  (* all evaluator-side caches empty *)
  Variable eval : bool -> C -> schema -> world -> option V * C.   (* ParseNode: memo switch, caches *)
  Variable marshal : V -> option bytes.
  Variable marshal_err_cont : bool.
  Variable H : bytes -> bytes.
  Variable canon : tree -> bytes.
  Variable CInv : list N -> C -> Prop.              (* cache invariant relative to the IDs handed out so far *)
  Variable content_stable_per_id : schema -> Prop.  (* guard of DESIGN section 6 F6 *)
  (* what the pipeline level needs from the evaluator (C02), the caches (C13 ingredients
     expr_cache_pure / js_isolation / node_json_fresh, C20) - to be instantiated by the integrator *)
  Hypothesis CInv_mono : forall used used' c,
    (forall x, In x used -> In x used') -> CInv used c -> CInv used' c.
  Hypothesis eval_cache_transparent : forall s w,
    content_stable_per_id s -> NoDup (w_ids w) ->
    fst (eval true c0 s w) = fst (eval false c0 s w).
  Hypothesis eval_id_renaming : forall (f : N -> N) m s w,
    content_stable_per_id s -> NoDup (w_ids w) ->
    (forall x y, In x (w_ids w) -> In y (w_ids w) -> f x = f y -> x = y) ->
    fst (eval m c0 s (w_rename f w)) = fst (eval m c0 s w).
  Hypothesis eval_caches_sound : forall used c m s w,
    CInv used c -> (forall i, In i (w_rec_ids w) -> ~ In i used) -> content_stable_per_id s ->
    NoDup (w_ids w) ->
    fst (eval m c s w) = fst (eval m c0 s w) /\ CInv (w_rec_ids w ++ used) (snd (eval m c s w)).
  Notation run_env := (run_env schema V C eval marshal marshal_err_cont H canon).
  Notation Inv := (Inv C CInv).

  Notation after_history := (after_history schema V C eval marshal marshal_err_cont H canon).

  Theorem run_deterministic_hid : forall h h' s ctx us,
    Inv h -> Inv h' -> content_stable_per_id s -> run_env h s ctx us = run_env h' s ctx us.
  Proof. exact (caches_invisible_env schema V C c0 eval marshal marshal_err_cont H canon CInv content_stable_per_id CInv_mono eval_cache_transparent eval_id_renaming eval_caches_sound). Qed.

  (* running after an arbitrary list of earlier transforms in the same process *)
  Theorem run_deterministic_history : forall h h' hist s ctx us,
    Inv h -> Inv h' -> Forall (fun x => content_stable_per_id (fst (fst x))) hist ->
    content_stable_per_id s ->
    run_env (after_history h hist) s ctx us = run_env h' s ctx us.
  Proof. exact (run_after_history schema V C c0 eval marshal marshal_err_cont H canon CInv content_stable_per_id CInv_mono eval_cache_transparent eval_id_renaming eval_caches_sound). Qed.

  (* validate.go:217-259: random declaration hashes are cache keys only *)
  Variable rehash : (N -> N) -> schema -> schema.
  Hypothesis eval_hash_renaming : forall (g : N -> N) m s w,
    (forall x y, g x = g y -> x = y) ->
    fst (eval m c0 (rehash g s) w) = fst (eval m c0 s w).
  Hypothesis guard_rehash : forall g s, content_stable_per_id s -> content_stable_per_id (rehash g s).

  Theorem hash_assignment_irrelevant : forall h h' g s ctx us,
    Inv h -> Inv h' -> content_stable_per_id s -> (forall x y, g x = g y -> x = y) ->
    run_env h (rehash g s) ctx us = run_env h' s ctx us.
  Proof. exact (hash_assignment_irrelevant schema V C c0 eval marshal marshal_err_cont H canon CInv content_stable_per_id CInv_mono eval_cache_transparent eval_id_renaming eval_caches_sound rehash eval_hash_renaming guard_rehash). Qed.

  (* "any injective assignment" presupposes that the assignment made by validate.go IS injective
     on declaration encodings: the hash table is keyed by the full encoding (Gen/DeclHash.v,
     re-extracted from computeDeclHash on every run) *)
  Theorem hash_assignment_irrelevant_src :
    decl_hash_injective = true /\
    forall h h' g s ctx us,
      Inv h -> Inv h' -> content_stable_per_id s -> (forall x y, g x = g y -> x = y) ->
      run_env h (rehash g s) ctx us = run_env h' s ctx us.
  Proof.
    exact (conj (eq_refl true)
                (OV.Proofs.Pipeline.hash_assignment_irrelevant schema V C c0 eval marshal marshal_err_cont H canon CInv content_stable_per_id CInv_mono eval_cache_transparent eval_id_renaming eval_caches_sound rehash eval_hash_renaming guard_rehash)).
  Qed.

  (* the checksum of a delivered record is H (canon t) of its own tree: equal raw records have
     equal checksums, in any position, run, process and schema *)
  Theorem canon_equal_on_equal : forall h s ctx us i t out sum,
    Inv h -> content_stable_per_id s -> nofatal (run_env h s ctx us) ->
    nth_error us i = Some (URec t) -> nth_error (run_env h s ctx us) i = Some (RRec out sum) ->
    sum = H (canon t).
  Proof. exact (checksum_of_record schema V C c0 eval marshal marshal_err_cont H canon CInv content_stable_per_id CInv_mono eval_cache_transparent eval_id_renaming eval_caches_sound). Qed.
End C15.


(* ---- with the C02 evaluator: no evaluator hypothesis left ---------------------------------------- *)
(* eval_c02 (Proofs/PipelineC02.v) = Model/Eval.v's ParseNode model run on the document
   T DocumentNode [] FNone (ctx ++ [record]) at the record, node IDs = the world's IDs by preorder
   index; eval_cache_transparent / eval_id_renaming are discharged by Proofs/EvalCache.v
   (caches_invisible_eval, eval_id_renaming, memo_sound_nil).  What remains assumed: the xpath
   engine returns nodes of the tree it is run on (query_valid); engine, externals and custom
   functions are deterministic functions (Section variables). *)
Section C15_C02.
  Variable query : tree -> bytes -> path -> option (list path).
  Variable ext : bytes -> option bytes.
  Variable fsigs : bytes -> option fsig.
  Variable fcall : tree -> bytes -> path -> list value -> cfres.
  Variable pcall : tree -> bytes -> path -> cfres.
  Hypothesis query_valid : forall root x p ps,
    valid root p -> query root x p = Some ps -> Forall (valid root) ps.
  Variable marshal : value -> option bytes.
  Variable marshal_err_cont : bool.
  Variable H : bytes -> bytes.
  Variable canon : tree -> bytes.
  Notation eval_c02 := (eval_c02 query ext fsigs fcall pcall).
  Notation run_env_c02 := (run_env vdecl value unit eval_c02 marshal marshal_err_cont H canon).

  Theorem run_deterministic_c02 : forall h h' hist s ctx us,
    Inv0 h -> Inv0 h' ->
    run_env_c02 (after_history vdecl value unit eval_c02 marshal marshal_err_cont H canon h hist) s ctx us
    = run_env_c02 h' s ctx us.
  Proof. exact (run_deterministic_c02 query ext fsigs fcall pcall query_valid marshal marshal_err_cont H canon). Qed.
End C15_C02.

(* ---- determinism across schema loads: the validated tree is a function of the schema bytes ------- *)
(* validate.go validateObject appends an object's children in Go map iteration order - ANY
   permutation of the child set, varying from load to load - and sorts them with `<` on a key.
   sort.Slice is modelled by its contract (a permutation of the input, ordered by the key).  For
   every total comparison `<` on keys (any two keys are comparable or equal) and every two iteration orders l, l' of the same children:
   if the keys are pairwise distinct the two sorted lists are EQUAL, so the children order (= the
   evaluation order of parseObject, which decides which of several failing fields is reported)
   does not depend on the load.  The key the code uses is re-extracted from the source on every
   run (Gen/ChildrenOrder.v): it is the full fqdn, unique among the children of one object. *)
Theorem children_order_deterministic :
  children_sorted_by_full_fqdn = true /\
  forall (A K : Type) (key : A -> K) (lt : K -> K -> Prop),
    (forall x y, lt x y \/ x = y \/ lt y x) ->
    forall l l' s s',
      NoDup (map key l) -> Permutation l l' ->
      is_sort_of A K key lt l s -> is_sort_of A K key lt l' s' -> s = s'.
Proof.
  exact (conj (eq_refl true) sort_order_deterministic).
Qed.

(* with a key that is not injective on the children (the text after the last '.': C15-r42) the
   order is NOT determined *)
Theorem children_order_refuted :
  exists (l l' s s' : list (nat * nat)),
    Permutation l l' /\
    is_sort_of (nat * nat) nat snd nat_lt l s /\ is_sort_of (nat * nat) nat snd nat_lt l' s' /\ s <> s'.
Proof. exact sort_order_refuted. Qed.

(* ---- checksum canon (Model/Pipeline.v j2 transcribes idr/marshal2.go J2NodeToInterface) ------- *)
(* Flat formats (csv, csv2 / fixedlength2 / fixed-length columns, EDI elements): a record is an
   node whose children are named elements holding one text node (checked on every flat raw
   record the harness sees: C15Flat).  With pairwise distinct
   column names (>= 2 of them): different ingested values => different canon. *)
Theorem canon_injective_flat : forall rty r names vals vals',
  NoDup names -> 2 <= length names ->
  length vals = length names -> length vals' = length names ->
  j2 (flat_rec rty r (combine names vals)) = j2 (flat_rec rty r (combine names vals')) -> vals = vals'.
Proof. exact canon_injective_flat. Qed.

Section Checksum.
  Variable enc : jv -> bytes.      (* json.Marshal of the value tree *)
  Variable H : bytes -> bytes.     (* MD5 / UUIDv3 *)
  Hypothesis enc_injective : forall a b, enc a = enc b -> a = b.
  Hypothesis H_injective : forall a b, H a = H b -> a = b.

  Theorem checksum_injective_flat : forall rty r names vals vals',
    NoDup names -> 2 <= length names ->
    length vals = length names -> length vals' = length names ->
    checksum enc H (flat_rec rty r (combine names vals)) = checksum enc H (flat_rec rty r (combine names vals')) ->
    vals = vals'.
  Proof. exact (checksum_injective_flat enc H enc_injective H_injective). Qed.

  (* For XML the full statement "different ingested values => different checksum" is false. *)
  Theorem checksum_xml_refuted : exists t t', t <> t' /\ checksum enc H t = checksum enc H t'.
  Proof. exact (checksum_xml_refuted enc H). Qed.
End Checksum.

Example c15_flat_canon_value :
  j2 (flat_rec ElementNode [] (combine [[x61]; [x62]] [[x31]; [x32]])) = JObj [([x61], JStr [x31]); ([x62], JStr [x32])].
Proof. vm_compute. reflexivity. Qed.

(* JSON: for every node the JSON stream reader builds (Model/Json.v jnode: document node, property
   node, array element - what C08's json_tree_built shows the reader to build) for values with
   pairwise distinct keys whose numbers survive strconv: equal canon => equal value. *)
Section C15Json.
  Variable fmtf : N -> bytes.     (* strconv.FormatFloat(v, 'f', -1, 64) *)
  Variable parsef : bytes -> N.   (* strconv.ParseFloat *)
  Notation float_rt := (PipelineCanonJson.float_rt fmtf parsef).

  Theorem canon_injective_json : forall v v' ty d base ty' d' base',
    Json.jwf v = true -> Json.jwf v' = true -> Json.jnums float_rt v -> Json.jnums float_rt v' ->
    Proofs.Json.base_ok base -> Proofs.Json.base_ok base' ->
    j2 (Json.jnode fmtf ty d base v) = j2 (Json.jnode fmtf ty' d' base' v') -> v = v'.
  Proof. exact (PipelineCanonJson.canon_injective_json fmtf parsef). Qed.

  Theorem canon_injective_json_built : forall v v' t t',
    Json.jwf v = true -> Json.jwf v' = true -> Json.jnums float_rt v -> Json.jnums float_rt v' ->
    Json.jbuild fmtf (Json.jtokens v) = Some t -> Json.jbuild fmtf (Json.jtokens v') = Some t' ->
    j2 t = j2 t' -> v = v'.
  Proof. exact (PipelineCanonJson.canon_injective_json_built fmtf parsef). Qed.
End C15Json.

(* XML under the F12 guard (PipelineCanonXml.xguard: text-only elements carry no attributes;
   elements with element children carry no text, have pairwise distinct non-empty child names -
   or are arrays: >= 2 children of one name and no attributes): two guarded records of the same
   shape (names, namespaces, nesting) with equal canon are equal - every text and every attribute
   value is determined by the canon. *)
Theorem canon_injective_xml : forall e e',
  PipelineCanonXml.xguard e -> PipelineCanonXml.xguard e' ->
  PipelineCanonXml.xshape e = PipelineCanonXml.xshape e' ->
  j2 (PipelineCanonXml.xtree e) = j2 (PipelineCanonXml.xtree e') -> e = e'.
Proof. exact PipelineCanonXml.canon_injective_xml. Qed.

(* a guarded record with attributes, a nested object and an array *)
Example c15_xml_guard_nonvacuous :
  let x := FXml [] [] in
  let e := PipelineCanonXml.XObj [x6e] x [([x6b], x, [x31])]
             [PipelineCanonXml.XLeaf [x61] x [x41];
              PipelineCanonXml.XArr [x6c] x [PipelineCanonXml.XLeaf [x65] x [x31]; PipelineCanonXml.XLeaf [x65] x [x32]]] in
  PipelineCanonXml.xguard e /\
  j2 (PipelineCanonXml.xtree e) =
    JObj [([x61], JStr [x41]); ([x6c], JArr [JStr [x31]; JStr [x32]]);
          (attributes_key, JObj [([x6b], JStr [x31])])].
Proof.
  split; [|vm_compute; reflexivity].
  simpl. repeat split; auto.
  - repeat constructor. simpl. tauto.
  - repeat constructor.
  - vm_compute. repeat constructor; simpl; intuition discriminate.
  - vm_compute. intros [H|[H|[]]]; discriminate.
  - vm_compute. intros [H|[H|[]]]; discriminate.
  - exists [x65]. repeat constructor.
Qed.

(* XML: different ingested values, equal canon (F12, both halves) *)
Theorem xml_checksum_refuted :
  (f12_a <> f12_b /\ j2 f12_a = j2 f12_b) /\ (f12_c <> f12_d /\ j2 f12_c = j2 f12_d).
Proof. exact (conj xml_checksum_refuted_attr xml_checksum_refuted_mixed). Qed.

(* Non-vacuity: the hypotheses are met by a concrete evaluator with an ID-keyed node-JSON cache
   that is consulted and filled (Proofs/PipelineInst.v), and three different hidden states (fresh
   process; warmed-up process with pooled nodes, a sync.Pool schedule, memo off, a filled cache;
   pooling and JS caches off) satisfy Inv. *)
Example c15_hypotheses_satisfiable :
  (forall used used' c, (forall x, In x used -> In x used') -> tCInv used c -> tCInv used' c) /\
  (forall s w, tguard s -> NoDup (w_ids w) -> fst (teval true tc0 s w) = fst (teval false tc0 s w)) /\
  (forall (f : N -> N) m s w, tguard s -> NoDup (w_ids w) ->
     (forall x y, In x (w_ids w) -> In y (w_ids w) -> f x = f y -> x = y) ->
     fst (teval m tc0 s (w_rename f w)) = fst (teval m tc0 s w)) /\
  (forall used c m s w, tCInv used c -> (forall i, In i (w_rec_ids w) -> ~ In i used) -> tguard s ->
     NoDup (w_ids w) ->
     fst (teval m c s w) = fst (teval m tc0 s w) /\ tCInv (w_rec_ids w ++ used) (snd (teval m c s w))) /\
  Pipeline.Inv tcache tCInv h_fresh /\ Pipeline.Inv tcache tCInv h_warm /\ Pipeline.Inv tcache tCInv h_off /\
  tguard OnRecord.
Proof.
  split; [exact t_CInv_mono|]. split; [intros; apply t_cache_transparent|].
  split; [intros; apply t_id_renaming; assumption|]. split; [intros; apply t_caches_sound; assumption|].
  split; [exact Inv_h_fresh|]. split; [exact Inv_h_warm|]. split; [exact Inv_h_off|reflexivity].
Qed.

Example c15_instance_history :
  t_run (after tschema bytes tcache teval (fun v => Some v) true (fun b => b) inner_text
               h_warm OnRecord t_ctx t_units) OnRecord t_ctx t_units
  = t_run h_fresh OnRecord t_ctx t_units.
Proof. vm_compute. reflexivity. Qed.

(* ---- with JavaScript (Proofs/PipelineJs.v; see Props/C13.v caches_invisible_js for the model) --- *)
From OV Require Model.Js Proofs.Js Proofs.PipelineJs.
Module MJ := OV.Model.Js.
Module PJ := OV.Proofs.Js.
Module PJS := OV.Proofs.PipelineJs.

Section C15_JS.
  Variable r : MJ.rt.
  Variable compile : N -> option MJ.script.
  Hypothesis r_wf : PJ.rt_wf r.
  Variable query : tree -> bytes -> path -> option (list path).
  Variable ext : bytes -> option bytes.
  Variable fsigs : bytes -> option fsig.
  Variable fcall0 : tree -> bytes -> path -> list value -> cfres.
  Variable pcall : tree -> bytes -> path -> cfres.
  Hypothesis query_valid : forall root x p ps,
    valid root p -> query root x p = Some ps -> Forall (valid root) ps.
  Variable js_of : tree -> bytes -> path -> list value -> option (MJ.call * MJ.sched).
  Variable matches : MJ.call * MJ.sched -> MJ.call * MJ.sched -> bool.
  Hypothesis matches_spec : forall a b, matches a b = true ->
    PJ.call_spec r compile (fst a) (snd a) = PJ.call_spec r compile (fst b) (snd b).
  Variable cf_of : MJ.outcome * option bytes -> cfres.
  Variable jscalls : bool -> vdecl -> world -> list (MJ.call * MJ.sched).
  Variable js_guard : vdecl -> Prop.
  Hypothesis jscalls_wf : forall m s w, js_guard s -> NoDup (w_ids w) ->
    forall c sc, In (c, sc) (jscalls m s w) ->
      PJ.call_wf c sc /\ (forall id j, MJ.c_node c = Some (id, j) -> In id (w_rec_ids w)).
  Hypothesis jscalls_stable : forall m s w, js_guard s -> NoDup (w_ids w) ->
    PJ.content_stable_per_id (map fst (jscalls m s w)).
  Variable progcap nodecap : N.
  Variable marshal : value -> option bytes.
  Variable marshal_err_cont : bool.
  Variable H : bytes -> bytes.
  Variable canon : tree -> bytes.
  Notation eval_js := (PJS.eval_js r compile query ext fsigs fcall0 pcall js_of matches cf_of jscalls).
  Notation run_env_js := (run_env vdecl value MJ.jsstate eval_js marshal marshal_err_cont H canon).
  Notation InvJ := (PJS.InvJ r compile).

  Theorem run_deterministic_js : forall h h' hist s ctx us,
    InvJ h -> InvJ h' -> Forall (fun x => js_guard (fst (fst x))) hist -> js_guard s ->
    run_env_js (after_history vdecl value MJ.jsstate eval_js marshal marshal_err_cont H canon h hist) s ctx us
    = run_env_js h' s ctx us.
  Proof.
    exact (PJS.run_deterministic_js r compile r_wf query ext fsigs fcall0 pcall query_valid js_of matches
             matches_spec cf_of jscalls js_guard jscalls_wf jscalls_stable progcap nodecap
             marshal marshal_err_cont H canon).
  Qed.
End C15_JS.
