(* C01 Read/RawRecord result-stream contract.  Statements only; proofs in Proofs/Latch.v.
   Every theorem quantifies over an arbitrary ingester (state type, step function, continuability
   oracle) and arbitrary operation lists. *)
From Coq Require Import List NArith Bool.
Import ListNotations.
From OV Require Import Base.ErrClass Model.Latch Gen.Continuable Proofs.Latch.
From OV Require Import Gen.LatchShape Model.LatchShape Proofs.LatchShape.

Section C01.
  Variable S : Type.
  Variable ing_step : S -> S * (option N * option N * option errv).
  Variable ing_cont : S -> errv -> bool.
  Notation run := (run S ing_step ing_cont).
  Notation read := (read S ing_step ing_cont).

  (* Each Read result is a record (nil error), a per-record failure (nil bytes,
     ErrTransformFailed) or a terminal error (nil bytes, any other error). *)
  Theorem latch_trichotomy : forall st ops,
    Forall (fun o => match o with
                     | OutRaw _ => True
                     | _ => is_record o \/ is_failure o \/ exists e, is_terminal o e
                     end) (snd (run st ops)).
  Proof. exact (latch_trichotomy S ing_step ing_cont). Qed.

  Theorem latch_kinds_exclusive : forall o,
    (is_record o -> ~ is_failure o /\ forall e, ~ is_terminal o e) /\
    (is_failure o -> forall e, ~ is_terminal o e).
  Proof. exact kinds_exclusive. Qed.

  Theorem latch_bytes_nil_on_error : forall st b e,
    snd (read st) = OutRead b (Some e) -> b = None.
  Proof. exact (read_bytes_nil_on_error S ing_step ing_cont). Qed.

  (* A terminal result is returned again, unchanged, by every later call of any history, and
     the ingester is never consulted again (the final state is the one right after that Read). *)
  Theorem latch_terminal_sticky : forall st ops1 ops2 e,
    let st1 := fst (run st ops1) in
    is_terminal (snd (read st1)) e ->
    run st (ops1 ++ OpRead :: ops2) =
      (fst (read st1), snd (run st ops1) ++ snd (read st1) :: map (sticky_out e) ops2).
  Proof. exact (latch_terminal_sticky S ing_step ing_cont). Qed.

  Theorem latch_continue_after_failed : forall ts s e,
    lastErr ts = Some e -> is_failed e = true ->
    read (ts, s) = do_read S ing_step ing_cont s.
  Proof. exact (latch_continue_after_failed S ing_step ing_cont). Qed.

  (* RawRecord after a Read describes that Read: its error, or the raw record the ingester
     returned in that very call. *)
  Theorem rawrecord_after_read : forall st st' b e,
    read st = (st', OutRead b e) ->
    match e with
    | Some e1 => rawrecord (fst st') = RRErr e1
    | None => exists s1 raw b1, ing_step (snd st) = (s1, (raw, b1, None)) /\
              rawrecord (fst st') = match raw with Some r => RROk r | None => RRCallFirst end
    end.
  Proof. exact (rawrecord_after_read S ing_step ing_cont). Qed.

  (* Over every history starting from a fresh Transform: RawRecord succeeds exactly when the
     most recent Read succeeded, returns that Read's error otherwise, and the distinguished
     call-Read-first error before any Read. *)
  Theorem rawrecord_law : ing_raw_on_success S ing_step ->
    forall s ops, raws_ok None (snd (run (t_init, s) ops)).
  Proof. exact (rawrecord_law S ing_step ing_cont). Qed.

  (* ---- tie to the source: Gen/LatchShape.v holds the statements of transform.Read and
     transform.RawRecord as extracted from transform.go on this run ---- *)
  Notation step := (step S ing_step ing_cont).
  Notation src_step := (src_step S ing_step ing_cont).
  Notation src_run := (src_run S ing_step ing_cont).
  Notation runx := (runx S ing_step ing_cont).
  Notation consulted := (consulted S ing_step).

  (* In every state and for every ingester result, the interpretation of the extracted statements
     returns (no panic, no fall-through) and is exactly the model's step. *)
  Theorem latch_step_is_source_shape : forall st o, src_step st o = Some (step st o).
  Proof. exact (step_is_source_shape S ing_step ing_cont). Qed.

  Theorem latch_run_is_source_shape : forall ops st, src_run st ops = Some (run st ops).
  Proof. exact (run_is_source_shape S ing_step ing_cont). Qed.

  (* The contract over what the extracted statements compute. *)
  Theorem src_trichotomy : forall st ops r,
    src_run st ops = Some r ->
    Forall (fun o => match o with
                     | OutRaw _ => True
                     | _ => is_record o \/ is_failure o \/ exists e, is_terminal o e
                     end) (snd r).
  Proof. exact (src_trichotomy S ing_step ing_cont). Qed.

  Theorem src_terminal_sticky : forall st ops1 ops2 e st1 o1 st2 o,
    src_run st ops1 = Some (st1, o1) ->
    src_step st1 OpRead = Some (st2, o) -> is_terminal o e ->
    src_run st (ops1 ++ OpRead :: ops2) = Some (st2, o1 ++ o :: map (sticky_out e) ops2).
  Proof. exact (src_terminal_sticky S ing_step ing_cont). Qed.

  Theorem src_rawrecord_law : ing_raw_on_success S ing_step ->
    forall s ops r, src_run (t_init, s) ops = Some r -> raws_ok None (snd r).
  Proof. exact (src_rawrecord_law S ing_step ing_cont). Qed.

  (* ---- every history, each output paired with the ingester call made for it ([runx]) ---- *)
  (* [consulted] is where the ingester moves: nothing consulted = ingester untouched. *)
  Theorem consulted_spec : forall st o,
    match consulted st o with
    | None => snd (fst (step st o)) = snd st
    | Some (s1, _) => snd (fst (step st o)) = s1
    end.
  Proof. exact (consulted_spec S ing_step ing_cont). Qed.

  Theorem runx_is_run : forall ops st,
    fst (runx st ops) = fst (run st ops) /\ map fst (snd (runx st ops)) = snd (run st ops).
  Proof. exact (runx_run S ing_step ing_cont). Qed.

  (* A Read returns non-nil bytes exactly when the ingester was called for it and reported success
     with those bytes. *)
  Theorem bytes_only_on_success : forall st ops,
    Forall (fun p => forall b,
              (exists e, fst p = OutRead (Some b) e) <->
              (exists s1 raw, snd p = Some (s1, (raw, Some b, None))))
           (snd (runx st ops)).
  Proof. exact (bytes_only_on_success S ing_step ing_cont). Qed.

  (* Every ErrTransformFailed result stems from an ingester error of that very call and carries
     its message. *)
  Theorem failed_wraps_ingester_error : forall st ops,
    Forall (fun p => forall e, fst p = OutRead None (Some e) -> is_failed e = true ->
              exists s1 raw b e0, snd p = Some (s1, (raw, b, Some e0)) /\ e_msg e = e_msg e0 /\
                ((ing_cont s1 e0 = true /\ e = wrap_failed e0) \/
                 (ing_cont s1 e0 = false /\ e = e0)))
           (snd (runx st ops)).
  Proof. exact (failed_wraps_ingester_error S ing_step ing_cont). Qed.

  (* After the Read that returned a terminal error, no call of any later history reaches the
     ingester. *)
  Theorem ingester_not_called_after_terminal : forall st ops1 ops2 e,
    let st1 := fst (run st ops1) in
    is_terminal (snd (read st1)) e ->
    map snd (snd (runx st (ops1 ++ OpRead :: ops2))) =
      map snd (snd (runx st ops1)) ++ consulted st1 OpRead :: repeat None (length ops2).
  Proof. exact (ingester_not_called_after_terminal S ing_step ing_cont). Qed.

  (* The terminal error returned from then on is the very value the ingester returned. *)
  Theorem error_identity : forall st ops1 ops2 s1 raw b e0,
    let st1 := fst (run st ops1) in
    consulted st1 OpRead = Some (s1, (raw, b, Some e0)) ->
    ing_cont s1 e0 = false -> is_failed e0 = false ->
    snd (run st (ops1 ++ OpRead :: ops2)) =
      snd (run st ops1) ++ OutRead None (Some e0) :: map (sticky_out e0) ops2.
  Proof. exact (error_identity S ing_step ing_cont). Qed.

  (* RawRecord is determined by the most recent Read: its error, or the raw record of that very
     ingester call, never an older one; no hypothesis on the ingester. *)
  Theorem rawrecord_never_stale : forall s ops,
    raws_fresh S None (snd (runx (t_init, s) ops)).
  Proof. exact (rawrecord_never_stale S ing_step ing_cont). Qed.
End C01.

(* The built-in ingester satisfies the hypothesis of rawrecord_law, for every FormatReader. *)
Theorem builtin_ing_raw_on_success : forall R rd_step parse marshal,
  ing_raw_on_success (istate R) (ing_read R rd_step parse marshal).
Proof. exact builtin_ing_raw_on_success. Qed.

(* Classification of the seven built-in formats, over the tables extracted from the source. *)
Theorem builtin_classification :
  Forall (fun reader_cont =>
    forall c, c <> RcLatched ->
      (continuable_ingester reader_cont c = true <-> (c <> RcEOF /\ c <> RcFatal)))
    all_formats.
Proof. exact builtin_classification. Qed.

Theorem csv_latched_not_continuable : continuable_ingester continuable_csv RcLatched = false.
Proof. exact csv_latched_not_continuable. Qed.

Theorem builtin_formats_complete : length all_formats = 7.
Proof. exact builtin_formats_complete. Qed.

Theorem builtin_reader_error_surfaces : forall R rd_step parse marshal fmt fatal_ty,
  fmt < length all_formats ->
  forall g r' n e,
  rd_step (i_rd g) = (r', mkRd n (Some e)) ->
  let o := snd (do_read (istate R) (ing_read R rd_step parse marshal)
                        (ing_is_cont R (b_cont R fmt fatal_ty)) g) in
  match rcls_of fatal_ty e with
  | RcEOF | RcFatal => is_terminal o e
  | _ => is_failure o
  end.
Proof. exact builtin_reader_error_surfaces. Qed.

(* Non-vacuity: a concrete history in which a terminal EOF is reached and five more calls are
   made; the premises of latch_terminal_sticky are met and the ingester is called 3 times. *)
Example c01_nonvacuous :
  let eof := mkErr CEOF 7 2 3 in
  let script := [mkIng (Some 1%N) (Some 10%N) None false;
                 mkIng None None (Some (mkErr COther 8 4 5)) true;
                 mkIng None None (Some eof) false] in
  let ops := [OpRaw; OpRead; OpRaw; OpRead; OpRaw; OpRead; OpRead; OpRaw; OpRead; OpRead; OpRaw] in
  check_lcase (mkLCase script ops
    [OutRaw RRCallFirst; OutRead (Some 10%N) None; OutRaw (RROk 1%N);
     OutRead None (Some (mkErr CFailed 0 1 5)); OutRaw (RRErr (mkErr CFailed 0 1 5));
     OutRead None (Some eof); OutRead None (Some eof); OutRaw (RRErr eof);
     OutRead None (Some eof); OutRead None (Some eof); OutRaw (RRErr eof)] 3) = true.
Proof. vm_compute. reflexivity. Qed.

(* Non-vacuity of the history theorems, on a scripted ingester: success, a continuable error
   delivered together with bytes and a raw record (both must be dropped), an ErrTransformFailed the
   ingester calls non-continuable (still not terminal), a fatal pointer error, then calls after it.
   The extracted statements give the same run; the premises of error_identity and
   ingester_not_called_after_terminal are met at the fourth Read; the ingester is called 4 times. *)
Example c01_histories_nonvacuous :
  let fatal := mkErr COther 9 4 6 in
  let fl := mkErr CFailed 0 1 7 in
  let script := [mkIng (Some 1%N) (Some 10%N) None false;
                 mkIng (Some 2%N) (Some 11%N) (Some (mkErr COther 0 3 5)) true;
                 mkIng None None (Some fl) false;
                 mkIng (Some 3%N) (Some 12%N) (Some fatal) false] in
  let st0 := (t_init, mkS script false 0 false) in
  let ops1 := [OpRead; OpRaw; OpRead; OpRaw; OpRead; OpRaw] in
  let ops2 := [OpRaw; OpRead; OpRead; OpRaw] in
  let st1 := fst (run sing sing_step sing_cont st0 ops1) in
  src_run sing sing_step sing_cont st0 (ops1 ++ OpRead :: ops2)
    = Some (run sing sing_step sing_cont st0 (ops1 ++ OpRead :: ops2))
  /\ snd (run sing sing_step sing_cont st0 ops1) =
       [OutRead (Some 10%N) None; OutRaw (RROk 1%N);
        OutRead None (Some (mkErr CFailed 0 1 5)); OutRaw (RRErr (mkErr CFailed 0 1 5));
        OutRead None (Some fl); OutRaw (RRErr fl)]
  /\ (exists s1, consulted sing sing_step st1 OpRead = Some (s1, (Some 3%N, Some 12%N, Some fatal))
                 /\ sing_cont s1 fatal = false)
  /\ is_terminal (snd (read sing sing_step sing_cont st1)) fatal
  /\ s_calls (snd (fst (run sing sing_step sing_cont st0 (ops1 ++ OpRead :: ops2)))) = 4%N.
Proof. vm_compute. repeat split; try reflexivity. eexists; split; reflexivity. Qed.
