(* C01 Read/RawRecord result-stream contract.  Statements only; proofs in Proofs/Latch.v.
   Every theorem quantifies over an arbitrary ingester (state type, step function, continuability
   oracle) and arbitrary operation lists. *)
From Coq Require Import List NArith Bool.
Import ListNotations.
From OV Require Import Base.ErrClass Model.Latch Gen.Continuable Proofs.Latch.

Section C01.
  Variable S : Type.
  Variable ing_step : S -> S * (option N * option N * option errv).
  Variable ing_cont : S -> errv -> bool.
  Notation run := (run S ing_step ing_cont).
  Notation read := (read S ing_step ing_cont).

  (* Each Read result is a record (nil error), a per-record failure (nil bytes,
     ErrTransformFailed) or a terminal error (nil bytes, any other error). *)
  Theorem latch_trichotomy : forall st ops,
    Forall (fun o => match o with
                     | OutRaw _ => True
                     | _ => is_record o \/ is_failure o \/ exists e, is_terminal o e
                     end) (snd (run st ops)).
  Proof. exact (latch_trichotomy S ing_step ing_cont). Qed.

  Theorem latch_kinds_exclusive : forall o,
    (is_record o -> ~ is_failure o /\ forall e, ~ is_terminal o e) /\
    (is_failure o -> forall e, ~ is_terminal o e).
  Proof. exact kinds_exclusive. Qed.

  Theorem latch_bytes_nil_on_error : forall st b e,
    snd (read st) = OutRead b (Some e) -> b = None.
  Proof. exact (read_bytes_nil_on_error S ing_step ing_cont). Qed.

  (* A terminal result is returned again, unchanged, by every later call of any history, and
     the ingester is never consulted again (the final state is the one right after that Read). *)
  Theorem latch_terminal_sticky : forall st ops1 ops2 e,
    let st1 := fst (run st ops1) in
    is_terminal (snd (read st1)) e ->
    run st (ops1 ++ OpRead :: ops2) =
      (fst (read st1), snd (run st ops1) ++ snd (read st1) :: map (sticky_out e) ops2).
  Proof. exact (latch_terminal_sticky S ing_step ing_cont). Qed.

  Theorem latch_continue_after_failed : forall ts s e,
    lastErr ts = Some e -> is_failed e = true ->
    read (ts, s) = do_read S ing_step ing_cont s.
  Proof. exact (latch_continue_after_failed S ing_step ing_cont). Qed.

  (* RawRecord after a Read describes that Read: its error, or the raw record the ingester
     returned in that very call. *)
  Theorem rawrecord_after_read : forall st st' b e,
    read st = (st', OutRead b e) ->
    match e with
    | Some e1 => rawrecord (fst st') = RRErr e1
    | None => exists s1 raw b1, ing_step (snd st) = (s1, (raw, b1, None)) /\
              rawrecord (fst st') = match raw with Some r => RROk r | None => RRCallFirst end
    end.
  Proof. exact (rawrecord_after_read S ing_step ing_cont). Qed.

  (* Over every history starting from a fresh Transform: RawRecord succeeds exactly when the
     most recent Read succeeded, returns that Read's error otherwise, and the distinguished
     call-Read-first error before any Read. *)
  Theorem rawrecord_law : ing_raw_on_success S ing_step ->
    forall s ops, raws_ok None (snd (run (t_init, s) ops)).
  Proof. exact (rawrecord_law S ing_step ing_cont). Qed.
End C01.

(* The built-in ingester satisfies the hypothesis of rawrecord_law, for every FormatReader. *)
Theorem builtin_ing_raw_on_success : forall R rd_step parse marshal,
  ing_raw_on_success (istate R) (ing_read R rd_step parse marshal).
Proof. exact builtin_ing_raw_on_success. Qed.

(* Classification of the seven built-in formats, over the tables extracted from the source. *)
Theorem builtin_classification :
  Forall (fun reader_cont =>
    forall c, c <> RcLatched ->
      (continuable_ingester reader_cont c = true <-> (c <> RcEOF /\ c <> RcFatal)))
    all_formats.
Proof. exact builtin_classification. Qed.

Theorem csv_latched_not_continuable : continuable_ingester continuable_csv RcLatched = false.
Proof. exact csv_latched_not_continuable. Qed.

Theorem builtin_formats_complete : length all_formats = 7.
Proof. exact builtin_formats_complete. Qed.

Theorem builtin_reader_error_surfaces : forall R rd_step parse marshal fmt fatal_ty,
  fmt < length all_formats ->
  forall g r' n e,
  rd_step (i_rd g) = (r', mkRd n (Some e)) ->
  let o := snd (do_read (istate R) (ing_read R rd_step parse marshal)
                        (ing_is_cont R (b_cont R fmt fatal_ty)) g) in
  match rcls_of fatal_ty e with
  | RcEOF | RcFatal => is_terminal o e
  | _ => is_failure o
  end.
Proof. exact builtin_reader_error_surfaces. Qed.

(* Non-vacuity: a concrete history in which a terminal EOF is reached and five more calls are
   made; the premises of latch_terminal_sticky are met and the ingester is called 3 times. *)
Example c01_nonvacuous :
  let eof := mkErr CEOF 7 2 3 in
  let script := [mkIng (Some 1%N) (Some 10%N) None false;
                 mkIng None None (Some (mkErr COther 8 4 5)) true;
                 mkIng None None (Some eof) false] in
  let ops := [OpRaw; OpRead; OpRaw; OpRead; OpRaw; OpRead; OpRead; OpRaw; OpRead; OpRead; OpRaw] in
  check_lcase (mkLCase script ops
    [OutRaw RRCallFirst; OutRead (Some 10%N) None; OutRaw (RROk 1%N);
     OutRead None (Some (mkErr CFailed 0 1 5)); OutRaw (RRErr (mkErr CFailed 0 1 5));
     OutRead None (Some eof); OutRead None (Some eof); OutRaw (RRErr eof);
     OutRead None (Some eof); OutRead None (Some eof); OutRaw (RRErr eof)] 3) = true.
Proof. vm_compute. reflexivity. Qed.
