(* C09 Results do not depend on how the input reader delivers its bytes.  Statements only; proofs
   in Proofs/Chunk*.v.

   Full statement (per component K of the reader stack WrapEncoding -> StripBOM -> {replacing
   readers} -> {line reader | delimiter scanner}):
     forall cs cs', concat cs = concat cs' -> (no 100 consecutive empty chunks in cs, cs') ->
       output K cs = output K cs'
   shown as  output K cs = F_K (concat cs)  for the pure functions F_K of Model/Chunk.v
   (a_strip_bom, a_read_lines, a_replace1, a_decode).
   Proved below, each layer over ANY reader meeting the contract reader_ok (so the layers compose
   freely), for every buffer size >= 4, every chunking, every tail (EOF or faults), EOF/fault
   delivered with or after the last bytes:
     the source itself; the bytewise charmap decoder (x/text transform.Reader, dec_read);
     ios.StripBOM; bufio.Reader fill/ReadRune/ReadSlice/ReadLine/Read; ios.ByteReadLine and the line
     loop; BytesReplacingReader for a one-byte search token and a replacement of length <= 1 (the
     three instances omniparser constructs); bufio.Scanner with the go-corelib split function
     (shift, doubling buffer, MaxScanTokenSize) for bytes.Index and for strs.ByteIndexWithEsc with
     a release character;
   and the complete stacks  WrapEncoding -> StripBOM -> line reader  (both fixed-length formats)
   and  WrapEncoding -> StripBOM -> Read -> [CR removal -> LF removal] -> delimiter scanner  (EDI),
   for utf-8 (no decoder) and for any charmap (decoder): stack_lines_chunk_invariant,
   stack_chunk_invariant_edi, stack_chunk_invariant_enc_lines, stack_chunk_invariant_enc_edi.
   Guards: the pure function is defined (= Ok _), which excludes exactly (a) known finding F22
   (line reader, lines_chunk_refuted) and (b) its scanner analogue, known finding F23: exactly
   MaxScanTokenSize (65536) bytes without a delimiter at the very end of the input
   (scan_chunk_refuted; replayed from replays/corpus/C09/F23-tail65536.json).
   BytesReplacingReader is also proved in general (any non-empty search token, any replacement:
   brrg_reader_ok, a_replace = leftmost non-overlapping replacement); the one-byte instances are
   its corollaries.  encoding/csv|json|xml are assumed chunk-invariant. *)
From Coq Require Import List NArith Bool Arith Lia.
From Coq.Strings Require Import Byte.
Import ListNotations.
From OV Require Import Base.Bytes Model.Chunk Proofs.Chunk Proofs.ChunkLines Proofs.ChunkBom Proofs.ChunkTop
  Proofs.ChunkBRR Proofs.ChunkBufRead Proofs.ChunkStack Proofs.ChunkAlias Proofs.ChunkDecode
  Proofs.ChunkScan Proofs.ChunkFind Proofs.ChunkBRRGen.

(* A consumer that reads a source to the end with reads of any fixed positive size sees the same
   bytes and the same final error under every chunking of the same bytes. *)
Theorem drain_chunk_invariant : forall cap fuel fuel' cs cs' wl wl' t,
  0 < cap -> concat cs = concat cs' ->
  weight cs < fuel -> weight cs' < fuel' ->
  drain fuel cap (mkSrc cs wl t) = drain fuel' cap (mkSrc cs' wl' t).
Proof. exact drain_chunk_invariant. Qed.

(* A chunk source without 100 consecutive empty chunks meets the reader contract on which all
   layer theorems rest (each layer is proved over ANY reader meeting it). *)
Theorem source_reader_ok : reader_ok source io_read src_rep src_wt src_lead.
Proof. exact source_reader_ok. Qed.

(* ios.StripBOM over any chunking: fails (NewTransform error) for the same inputs with the same
   error. *)
Theorem stripbom_probe_chunk_invariant : forall N cs cs' wl wl' t,
  4 <= N -> concat cs = concat cs' -> runs_ok cs = true -> runs_ok cs' = true ->
  forall e, (exists s1, strip_bom source io_read N (mkSrc cs wl t) = Ok (inl e, s1)) <->
            (exists s2, strip_bom source io_read N (mkSrc cs' wl' t) = Ok (inl e, s2)).
Proof. exact stripbom_probe_chunk_invariant. Qed.

(* The line reader (bufio.Reader + ios.ByteReadLine until the first error): every chunking of the
   same bytes yields a_read_lines of the bytes. *)
Theorem lines_chunk_invariant : forall N gas gas' fuel cs cs' wl wl' t res,
  4 <= N -> concat cs = concat cs' ->
  runs_ok cs = true -> runs_ok cs' = true ->
  weight cs + 1 < gas -> weight cs' + 1 < gas' ->
  a_read_lines N fuel (concat cs, t) = Ok res ->
  read_lines source io_read N gas fuel b_init (mkSrc cs wl t) = Ok res /\
  read_lines source io_read N gas' fuel b_init (mkSrc cs' wl' t) = Ok res.
Proof. exact lines_chunk_invariant. Qed.

(* Without the guard the statement is false of the faithful model (known finding F22, replayed
   on the Go code from replays/corpus/C09/F22-lastline4096.json). *)
Theorem lines_chunk_refuted :
  exists N cs cs' wl wl' gas fuel,
    concat cs = concat cs' /\ runs_ok cs = true /\ runs_ok cs' = true /\
    read_lines source io_read N gas fuel b_init (mkSrc cs wl TEof) <>
    read_lines source io_read N gas fuel b_init (mkSrc cs' wl' TEof).
Proof. exact lines_chunk_refuted. Qed.

(* Composition: StripBOM then the line reader (what both fixed-length formats run on). *)
Theorem stack_lines_chunk_invariant : forall N gas gas' fuel cs cs' wl wl' t res,
  4 <= N -> concat cs = concat cs' ->
  runs_ok cs = true -> runs_ok cs' = true ->
  weight cs + 1 < gas -> weight cs' + 1 < gas' ->
  a_bom_lines N fuel (concat cs, t) = Ok res ->
  bom_lines N gas fuel (mkSrc cs wl t) = Ok res /\
  bom_lines N gas' fuel (mkSrc cs' wl' t) = Ok res.
Proof. exact stack_lines_chunk_invariant. Qed.

(* bufio.Reader.Read over any reader meeting the contract meets the contract (same stream). *)
Theorem bufio_read_reader_ok : forall St sread Rep wt lead,
  reader_ok St sread Rep wt lead -> forall N, 4 <= N ->
  reader_ok (bufrd * St) (b_read St sread N) (bufrd_rep St Rep N) (bufrd_wt St wt) (bufrd_lead St lead).
Proof. exact bufio_read_reader_ok. Qed.

(* BytesReplacingReader (one-byte search, replacement of length <= 1) over any reader meeting the
   contract meets the contract, for the stream of replaced bytes. *)
Theorem brr_reader_ok : forall s repl, length repl <= 1 -> forall bufsize, 0 < bufsize ->
  forall St sread Rep wt lead, reader_ok St sread Rep wt lead -> forall fuel,
  reader_ok (brr * St) (brr_rd s repl bufsize St sread fuel)
            (brr_rep_f s repl bufsize St Rep wt fuel) (brr_wt St wt) (fun _ => 0).
Proof. exact brr_reader_ok. Qed.

Theorem brr_chunk_invariant : forall s repl cap fuel fuel' F F' cs cs' wl wl' t,
  length repl <= 1 -> 0 < cap -> concat cs = concat cs' ->
  runs_ok cs = true -> runs_ok cs' = true ->
  weight cs + 1 < fuel -> weight cs' + 1 < fuel' -> 2 * weight cs < F -> 2 * weight cs' < F' ->
  drain_rd _ (brr_rd s repl 4096 source io_read fuel) F cap (brr_init, mkSrc cs wl t) =
  drain_rd _ (brr_rd s repl 4096 source io_read fuel') F' cap (brr_init, mkSrc cs' wl' t).
Proof. exact brr_chunk_invariant. Qed.

(* BytesReplacingReader in general: any non-empty search token, any replacement (shorter, equal,
   longer; buffer >= both), over any reader meeting the contract: meets the contract for the stream
   a_replace search repl 0 data (every leftmost non-overlapping occurrence replaced). *)
Theorem brrg_reader_ok : forall search repl, 1 <= length search ->
  forall bufsize, length search <= bufsize /\ length repl <= bufsize /\ 0 < bufsize ->
  forall St sread Rep wt lead, reader_ok St sread Rep wt lead -> forall fuel,
  reader_ok (brr * St) (brrg_rd search repl bufsize St sread fuel)
            (brrg_rep_f search repl bufsize St Rep wt fuel) (brrg_wt search repl St wt) (fun _ => 0).
Proof. exact brrg_reader_ok. Qed.

Theorem brrg_chunk_invariant : forall search repl bufsize cap fuel fuel' F F' cs cs' wl wl' t,
  1 <= length search -> length search <= bufsize -> length repl <= bufsize ->
  0 < cap -> concat cs = concat cs' -> runs_ok cs = true -> runs_ok cs' = true ->
  weight cs + 1 < fuel -> weight cs' + 1 < fuel' ->
  2 * mm search repl * weight cs < F -> 2 * mm search repl * weight cs' < F' ->
  drain_rd _ (brrg_rd search repl bufsize source io_read fuel) F cap (brr_init, mkSrc cs wl t) =
  drain_rd _ (brrg_rd search repl bufsize source io_read fuel') F' cap (brr_init, mkSrc cs' wl' t).
Proof. exact brrg_chunk_invariant. Qed.

Theorem a_replace_single : forall s repl l, a_replace [s] repl 0 l = a_replace1 s repl l.
Proof. exact a_replace_single. Qed.

(* Non-vacuity: "ab" -> "xyz" (longer) on "aabab" + "b", cut inside both occurrences. *)
Example brrg_nonvacuous :
  let cs := [[x61; x61]; [x62; x61]; []; [x62]; [x62]] in
  runs_ok cs = true /\
  drain_rd _ (brrg_rd [x61; x62] [x78; x79; x7a] 8 source io_read 40) 80 3 (brr_init, mkSrc cs true TEof)
  = Ok (a_replace [x61; x62] [x78; x79; x7a] 0 (concat cs), IoEOF) /\
  a_replace [x61; x62] [x78; x79; x7a] 0 (concat cs) = [x61; x78; x79; x7a; x78; x79; x7a; x62].
Proof. vm_compute. repeat split; reflexivity. Qed.

(* Composition for the EDI byte stack: what StripBOM -> Read -> CR removal -> LF removal hands
   to its consumer is a_replace1 LF (a_replace1 CR (a_strip_bom bytes)), under every chunking.
   Partial w.r.t. the full stack statement: the scanner above it and the charmap decoder below it
   are modelled and compared with the real code but not proved. *)
Theorem stack_chunk_invariant_partial : forall N fuel F cap cs cs' wl wl' t data' t',
  4 <= N -> 0 < cap -> concat cs = concat cs' -> runs_ok cs = true -> runs_ok cs' = true ->
  12 * (N + weight cs) + 4 < fuel -> 12 * (N + weight cs) + 4 < F ->
  12 * (N + weight cs') + 4 < fuel -> 12 * (N + weight cs') + 4 < F ->
  a_strip_bom (concat cs, t) = inr (data', t') ->
  exists b1 s1 b2 s2,
    strip_bom source io_read N (mkSrc cs wl t) = Ok (inr b1, s1) /\
    strip_bom source io_read N (mkSrc cs' wl' t) = Ok (inr b2, s2) /\
    drain_rd _ (edi_bytes_rd N fuel) F cap (brr_init, (brr_init, (b1, s1))) =
    drain_rd _ (edi_bytes_rd N fuel) F cap (brr_init, (brr_init, (b2, s2))).
Proof. exact stack_replacing_chunk_invariant. Qed.

Theorem stack_replacing_spec : forall N fuel F cap cs wl t data' t',
  4 <= N -> 0 < cap -> runs_ok cs = true ->
  12 * (N + weight cs) + 4 < fuel -> 12 * (N + weight cs) + 4 < F ->
  a_strip_bom (concat cs, t) = inr (data', t') ->
  exists b s', strip_bom source io_read N (mkSrc cs wl t) = Ok (inr b, s') /\
    drain_rd _ (edi_bytes_rd N fuel) F cap (brr_init, (brr_init, (b, s')))
    = Ok (a_replace1 NL [] (a_replace1 CR [] data'), tail_err t').
Proof. exact stack_replacing_spec. Qed.

(* The charmap decoder over any reader meeting the contract meets the contract, for the stream of
   decoded bytes a_decode cp (any code page with 1..3 output bytes per input byte). *)
Theorem dec_reader_ok : forall cp, (forall c, 1 <= length (cp c) <= 3) -> forall D, 3 <= D ->
  forall St sread Rep wt lead, reader_ok St sread Rep wt lead -> forall fuel,
  reader_ok (decrd * St) (dec_rd cp D St sread fuel) (dec_rep_f cp D St Rep wt fuel) (dec_wt St wt) (fun _ => 0).
Proof. exact dec_reader_ok. Qed.

Theorem dec_chunk_invariant : forall cp cap fuel fuel' F F' cs cs' wl wl' t,
  (forall c, 1 <= length (cp c) <= 3) -> 0 < cap -> concat cs = concat cs' ->
  runs_ok cs = true -> runs_ok cs' = true ->
  2 * weight cs + 4 < fuel -> 2 * weight cs' + 4 < fuel' -> 6 * weight cs < F -> 6 * weight cs' < F' ->
  drain_rd _ (dec_rd cp 4096 source io_read fuel) F cap (dec_init, mkSrc cs wl t) =
  drain_rd _ (dec_rd cp 4096 source io_read fuel') F' cap (dec_init, mkSrc cs' wl' t).
Proof. exact dec_chunk_invariant. Qed.

(* bufio.Scanner (scan / scan_all of Model/Chunk.v: split function, shift, doubling buffer,
   ErrTooLong) over any reader meeting the contract: the tokens are a_scan_all of the stream, for
   any delimiter search that is prefix-stable ... *)
Theorem scan_all_spec : forall St sread Rep wt lead, reader_ok St sread Rep wt lead ->
  forall find dlen incl eofd, 1 <= dlen ->
  (forall d i, find d = Some i -> i + dlen <= length d) ->
  (forall d r i, find d = Some i -> find (d ++ r) = Some i) ->
  forall gas fuel sc x data t res,
  SR St Rep (sc, x) data t -> sm St wt (sc, x) < gas ->
  a_scan_all find dlen incl eofd fuel data t = Ok res ->
  scan_all St sread find dlen incl eofd gas fuel sc x = Ok res.
Proof. exact scan_all_spec. Qed.

(* Without the guard the scanner statement is false (known finding F23). *)
Theorem scan_chunk_refuted :
  exists cs cs' wl wl' gas fuel,
    concat cs = concat cs' /\ runs_ok cs = true /\ runs_ok cs' = true /\
    scan_all source io_read (byte_index_with_esc [x7e] []) 1 true false gas fuel (mkScan 0 [] 128 None) (mkSrc cs wl TEof) <>
    scan_all source io_read (byte_index_with_esc [x7e] []) 1 true false gas fuel (mkScan 0 [] 128 None) (mkSrc cs' wl' TEof).
Proof. exact scan_chunk_refuted. Qed.

(* ... which bytes.Index and strs.ByteIndexWithEsc (any release character sequence) are, for every
   delimiter that starts with a complete UTF-8 sequence. *)
Theorem find_esc_ok : forall delim esc, full_rune delim = true ->
  (forall d i, byte_index_with_esc delim esc d = Some i -> i + length delim <= length d) /\
  (forall d r i, byte_index_with_esc delim esc d = Some i -> byte_index_with_esc delim esc (d ++ r) = Some i).
Proof. exact find_esc_ok. Qed.

(* The complete EDI stack, utf-8: StripBOM -> Read -> [CR, LF removal] -> scanner. *)
Theorem stack_chunk_invariant_edi : forall crlf N buflen delim esc gasB gas fuel cs cs' wl wl' t res,
  4 <= N -> buflen <= MaxScanTokenSize -> full_rune delim = true ->
  concat cs = concat cs' -> runs_ok cs = true -> runs_ok cs' = true ->
  12 * (N + weight cs) + 6 < gasB -> 12 * (N + weight cs) + 6 < gas ->
  12 * (N + weight cs') + 6 < gasB -> 12 * (N + weight cs') + 6 < gas ->
  a_edi_tokens crlf delim esc fuel (concat cs, t) = Ok res ->
  edi_tokens_rd source io_read crlf N buflen delim esc gasB gas fuel (mkSrc cs wl t) = Ok res /\
  edi_tokens_rd source io_read crlf N buflen delim esc gasB gas fuel (mkSrc cs' wl' t) = Ok res.
Proof. exact stack_chunk_invariant_edi. Qed.

(* The complete stacks with a charmap decoder in front (WrapEncoding for iso-8859-1 and
   windows-1252). *)
Theorem stack_chunk_invariant_enc_lines : forall cp fuelD N gas fuel cs cs' wl wl' t res,
  (forall c, 1 <= length (cp c) <= 3) ->
  4 <= N -> concat cs = concat cs' -> runs_ok cs = true -> runs_ok cs' = true ->
  2 * weight cs + 4 < fuelD -> 2 * weight cs' + 4 < fuelD ->
  6 * weight cs + 1 < gas -> 6 * weight cs' + 1 < gas ->
  a_bom_lines N fuel (a_decode cp (concat cs), latch t) = Ok res ->
  bom_lines_rd _ (dec_rd cp 4096 source io_read fuelD) N gas fuel (dec_init, mkSrc cs wl t) = Ok res /\
  bom_lines_rd _ (dec_rd cp 4096 source io_read fuelD) N gas fuel (dec_init, mkSrc cs' wl' t) = Ok res.
Proof. intros. eapply stack_chunk_invariant_enc_lines; eassumption. Qed.

Theorem stack_chunk_invariant_enc_edi : forall cp fuelD crlf N buflen delim esc gasB gas fuel cs cs' wl wl' t res,
  (forall c, 1 <= length (cp c) <= 3) ->
  4 <= N -> buflen <= MaxScanTokenSize -> full_rune delim = true ->
  concat cs = concat cs' -> runs_ok cs = true -> runs_ok cs' = true ->
  2 * weight cs + 4 < fuelD -> 2 * weight cs' + 4 < fuelD ->
  12 * (N + 6 * weight cs) + 6 < gasB -> 12 * (N + 6 * weight cs) + 6 < gas ->
  12 * (N + 6 * weight cs') + 6 < gasB -> 12 * (N + 6 * weight cs') + 6 < gas ->
  a_edi_tokens crlf delim esc fuel (a_decode cp (concat cs), latch t) = Ok res ->
  edi_tokens_rd _ (dec_rd cp 4096 source io_read fuelD) crlf N buflen delim esc gasB gas fuel (dec_init, mkSrc cs wl t) = Ok res /\
  edi_tokens_rd _ (dec_rd cp 4096 source io_read fuelD) crlf N buflen delim esc gasB gas fuel (dec_init, mkSrc cs' wl' t) = Ok res.
Proof. intros. eapply stack_chunk_invariant_enc_edi; eassumption. Qed.

(* Known finding F30 (JSON error texts carry a line number counted over the decoder's read-ahead):
   such a counter is not chunk-invariant.  Replayed from replays/corpus/C09/f30_json_line_number.json;
   the main stream masks exactly that number for JSON (guard json_line_masked). *)
Theorem line_count_readahead_refuted :
  exists cs cs' wl t, concat cs = concat cs' /\ runs_ok cs = true /\ runs_ok cs' = true /\
    fst (snd (lcr_read (1, mkSrc cs wl t) 512)) <> fst (snd (lcr_read (1, mkSrc cs' wl t) 512)).
Proof. exact line_count_readahead_refuted. Qed.

(* The full statement that stack_chunk_invariant_partial left open (scanner above, decoder below):
   for utf-8 both complete stacks at once; the charmap versions are the two _enc_ theorems above. *)
Theorem stack_chunk_invariant : forall crlf N buflen delim esc gasB gas fuel cs cs' wl wl' t rl rt,
  4 <= N -> buflen <= MaxScanTokenSize -> full_rune delim = true ->
  concat cs = concat cs' -> runs_ok cs = true -> runs_ok cs' = true ->
  12 * (N + weight cs) + 6 < gasB -> 12 * (N + weight cs) + 6 < gas ->
  12 * (N + weight cs') + 6 < gasB -> 12 * (N + weight cs') + 6 < gas ->
  a_bom_lines N fuel (concat cs, t) = Ok rl ->
  a_edi_tokens crlf delim esc fuel (concat cs, t) = Ok rt ->
  (bom_lines N gas fuel (mkSrc cs wl t) = Ok rl /\ bom_lines N gas fuel (mkSrc cs' wl' t) = Ok rl) /\
  (edi_tokens_rd source io_read crlf N buflen delim esc gasB gas fuel (mkSrc cs wl t) = Ok rt /\
   edi_tokens_rd source io_read crlf N buflen delim esc gasB gas fuel (mkSrc cs' wl' t) = Ok rt).
Proof. exact stack_chunk_invariant. Qed.

(* Non-vacuity of the complete-stack theorems: a two-byte code page, BOM (as decoded), CR LF,
   a release character before a delimiter, cuts inside all of them, a 4-byte scanner buffer. *)
Definition demo_cp (c : byte) : bytes := if (b2n c <? 128)%N then [c] else [xc3; c].
Example c09_full_stack_nonvacuous :
  let data := [x41; x2a; xe9; x3f; x7e; x62; x7e; x0d; x0a; x42; x2a; x32; x7e; x0d] in
  let cs := [[x41]; []; [x2a; xe9; x3f]; [x7e; x62; x7e; x0d]; [x0a; x42]; [x2a; x32; x7e; x0d]] in
  concat cs = data /\ runs_ok cs = true /\ (forall c, 1 <= length (demo_cp c) <= 3) /\
  a_edi_tokens true [x7e] [x3f] 20 (a_decode demo_cp data, latch TEof)
    = Ok (inr ([[x41; x2a; xc3; xe9; x3f; x7e; x62; x7e]; [x42; x2a; x32; x7e]], None)) /\
  edi_tokens_rd _ (dec_rd demo_cp 4096 source io_read 200) true 16 4 [x7e] [x3f] 3000 3000 20 (dec_init, mkSrc cs true TEof)
    = edi_tokens_rd _ (dec_rd demo_cp 4096 source io_read 200) true 16 4 [x7e] [x3f] 3000 3000 20 (dec_init, mkSrc [data] false TEof).
Proof.
  split; [reflexivity|]. split; [reflexivity|]. split.
  - intro c. unfold demo_cp. destruct (b2n c <? 128)%N; simpl; lia.
  - split; vm_compute; reflexivity.
Qed.

(* The aliasing discipline of the fixedlength2 unprocessed-lines buffer (flatfile/fixedlength/
   reader.go readLine: "copy the last line before the next read"): for ANY number of buffered
   lines (rows: n, header/footer envelopes of any length) and any sequence of readLine /
   popFrontLinesBuf / linesToNode-matchHeader-matchFooter uses, no line is read after the bufio
   buffer it refers to may have moved.  The chunk schedule decides only WHEN the buffer moves;
   the discipline makes the results independent of it. *)
Theorem fl2_no_poison : forall ops st,
  forallb lb_code_op ops = true -> lb_inv st -> lb_run st ops <> LPoison.
Proof. exact fl2_no_poison. Qed.

(* Skipping the copy for a single read (e.g. "the next line is already buffered") breaks it with
   a three-line envelope. *)
Theorem fl2_skipcopy_refuted :
  exists ops, lb_run lb_init ops = LPoison /\
              length (filter (fun o => negb (lb_code_op o)) ops) = 1.
Proof. exact fl2_skipcopy_refuted. Qed.

Example fl2_nonvacuous :
  lb_inv lb_init /\
  lb_run lb_init [LRead 0 true; LUse 1; LRead 1 true; LRead 0 true; LRead 0 true; LUse 4; LPop 4;
                  LRead 2 false; LUse 0] = LOk (mkLB [] 8).
Proof. split; [exact lb_inv_init|reflexivity]. Qed.

(* Non-vacuity of the byte-stack theorems: BOM, CR LF pairs, cut inside each of them. *)
Example c09_stack_nonvacuous :
  let data := [xef; xbb; xbf; x41; x2a; x0d; x0a; x42; x7e; x0d; x0a] in
  let cs := [[xef; xbb]; []; [xbf; x41; x2a; x0d]; [x0a; x42; x7e; x0d]; [x0a]] in
  concat cs = data /\ runs_ok cs = true /\
  a_strip_bom (data, TEof) = inr ([x41; x2a; x0d; x0a; x42; x7e; x0d; x0a], TEof) /\
  match strip_bom source io_read 16 (mkSrc cs true TEof) with
  | Ok (inr b, s') => drain_rd _ (edi_bytes_rd 16 400) 400 3 (brr_init, (brr_init, (b, s')))
                      = Ok ([x41; x2a; x42; x7e], IoEOF)
  | _ => False
  end.
Proof. vm_compute. repeat split; reflexivity. Qed.

(* Non-vacuity: BOM + "ab\r\n" + a 9-byte line (longer than the 8-byte buffer) + "x", cut inside
   the BOM, inside CR LF and with empty chunks, EOF with the last byte -- against one chunk. *)
Example c09_nonvacuous :
  let data := [xef; xbb; xbf; x61; x62; x0d; x0a; x31; x32; x33; x34; x35; x36; x37; x38; x39; x0a; x78] in
  let cs := [[xef]; []; [xbb]; [xbf; x61; x62; x0d]; []; []; [x0a; x31; x32; x33; x34; x35; x36; x37];
             [x38; x39; x0a]; [x78]] in
  concat cs = data /\ runs_ok cs = true /\
  a_bom_lines 8 10 (data, TEof) = Ok (inr ([[x61; x62]; [x31; x32; x33; x34; x35; x36; x37; x38; x39]; [x78]], IoEOF)) /\
  bom_lines 8 60 10 (mkSrc cs true TEof) = bom_lines 8 60 10 (mkSrc [data] false TEof).
Proof. vm_compute. repeat split; reflexivity. Qed.
