(* C09 Results do not depend on how the input reader delivers its bytes.  Statements only; proofs
   in Proofs/Chunk*.v.

   Full statement (per component K of the reader stack WrapEncoding -> StripBOM -> {replacing
   readers} -> {line reader | delimiter scanner}):
     forall cs cs', concat cs = concat cs' -> (no 100 consecutive empty chunks in cs, cs') ->
       output K cs = output K cs'
   shown as  output K cs = F_K (concat cs)  for the pure functions F_K of Model/Chunk.v
   (a_strip_bom, a_read_lines, a_replace1, a_decode).
   Proved below: the source itself, StripBOM, bufio.Reader fill/ReadRune/ReadSlice/ReadLine/Read,
   ios.ByteReadLine, the line loop, BytesReplacingReader for a one-byte search token and a
   replacement of length <= 1 (the three instances omniparser constructs), and the compositions
   StripBOM -> line reader (both fixed-length formats) and StripBOM -> Read -> CR removal -> LF
   removal (the bytes the EDI scanner sees) -- for every buffer size >= 4, every chunking, every
   tail (EOF or faults), EOF/fault delivered with or after the last bytes.  Every layer theorem is
   proved over ANY reader meeting the contract reader_ok, so the layers compose freely.  The
   line-reader theorems carry the guard that the pure function is defined (a_read_lines ... = Ok _),
   which excludes exactly the inputs of known finding F22 (lines_chunk_refuted).
   NOT proved (model + correspondence on every run only; hence ..._partial below): the delimiter
   scanner with its doubling buffer (scan / scan_all), the charmap decoder (dec_read), and
   BytesReplacingReader for longer tokens; encoding/csv|json|xml are assumed chunk-invariant. *)
From Coq Require Import List NArith Bool Arith.
From Coq.Strings Require Import Byte.
Import ListNotations.
From OV Require Import Base.Bytes Model.Chunk Proofs.Chunk Proofs.ChunkLines Proofs.ChunkBom Proofs.ChunkTop
  Proofs.ChunkBRR Proofs.ChunkBufRead Proofs.ChunkStack.

(* A consumer that reads a source to the end with reads of any fixed positive size sees the same
   bytes and the same final error under every chunking of the same bytes. *)
Theorem drain_chunk_invariant : forall cap fuel fuel' cs cs' wl wl' t,
  0 < cap -> concat cs = concat cs' ->
  weight cs < fuel -> weight cs' < fuel' ->
  drain fuel cap (mkSrc cs wl t) = drain fuel' cap (mkSrc cs' wl' t).
Proof. exact drain_chunk_invariant. Qed.

(* A chunk source without 100 consecutive empty chunks meets the reader contract on which all
   layer theorems rest (each layer is proved over ANY reader meeting it). *)
Theorem source_reader_ok : reader_ok source io_read src_rep src_wt src_lead.
Proof. exact source_reader_ok. Qed.

(* ios.StripBOM over any chunking: fails (NewTransform error) for the same inputs with the same
   error. *)
Theorem stripbom_probe_chunk_invariant : forall N cs cs' wl wl' t,
  4 <= N -> concat cs = concat cs' -> runs_ok cs = true -> runs_ok cs' = true ->
  forall e, (exists s1, strip_bom source io_read N (mkSrc cs wl t) = Ok (inl e, s1)) <->
            (exists s2, strip_bom source io_read N (mkSrc cs' wl' t) = Ok (inl e, s2)).
Proof. exact stripbom_probe_chunk_invariant. Qed.

(* The line reader (bufio.Reader + ios.ByteReadLine until the first error): every chunking of the
   same bytes yields a_read_lines of the bytes. *)
Theorem lines_chunk_invariant : forall N gas gas' fuel cs cs' wl wl' t res,
  4 <= N -> concat cs = concat cs' ->
  runs_ok cs = true -> runs_ok cs' = true ->
  weight cs + 1 < gas -> weight cs' + 1 < gas' ->
  a_read_lines N fuel (concat cs, t) = Ok res ->
  read_lines source io_read N gas fuel b_init (mkSrc cs wl t) = Ok res /\
  read_lines source io_read N gas' fuel b_init (mkSrc cs' wl' t) = Ok res.
Proof. exact lines_chunk_invariant. Qed.

(* Without the guard the statement is false of the faithful model (known finding F22, replayed
   on the Go code from replays/corpus/C09/F22-lastline4096.json). *)
Theorem lines_chunk_refuted :
  exists N cs cs' wl wl' gas fuel,
    concat cs = concat cs' /\ runs_ok cs = true /\ runs_ok cs' = true /\
    read_lines source io_read N gas fuel b_init (mkSrc cs wl TEof) <>
    read_lines source io_read N gas fuel b_init (mkSrc cs' wl' TEof).
Proof. exact lines_chunk_refuted. Qed.

(* Composition: StripBOM then the line reader (what both fixed-length formats run on). *)
Theorem stack_lines_chunk_invariant : forall N gas gas' fuel cs cs' wl wl' t res,
  4 <= N -> concat cs = concat cs' ->
  runs_ok cs = true -> runs_ok cs' = true ->
  weight cs + 1 < gas -> weight cs' + 1 < gas' ->
  a_bom_lines N fuel (concat cs, t) = Ok res ->
  bom_lines N gas fuel (mkSrc cs wl t) = Ok res /\
  bom_lines N gas' fuel (mkSrc cs' wl' t) = Ok res.
Proof. exact stack_lines_chunk_invariant. Qed.

(* bufio.Reader.Read over any reader meeting the contract meets the contract (same stream). *)
Theorem bufio_read_reader_ok : forall St sread Rep wt lead,
  reader_ok St sread Rep wt lead -> forall N, 4 <= N ->
  reader_ok (bufrd * St) (b_read St sread N) (bufrd_rep St Rep N) (bufrd_wt St wt) (bufrd_lead St lead).
Proof. exact bufio_read_reader_ok. Qed.

(* BytesReplacingReader (one-byte search, replacement of length <= 1) over any reader meeting the
   contract meets the contract, for the stream of replaced bytes. *)
Theorem brr_reader_ok : forall s repl, length repl <= 1 -> forall bufsize, 0 < bufsize ->
  forall St sread Rep wt lead, reader_ok St sread Rep wt lead -> forall fuel,
  reader_ok (brr * St) (brr_rd s repl bufsize St sread fuel)
            (brr_rep_f s repl bufsize St Rep wt fuel) (brr_wt St wt) (fun _ => 0).
Proof. exact brr_reader_ok. Qed.

Theorem brr_chunk_invariant : forall s repl cap fuel fuel' F F' cs cs' wl wl' t,
  length repl <= 1 -> 0 < cap -> concat cs = concat cs' ->
  runs_ok cs = true -> runs_ok cs' = true ->
  weight cs + 1 < fuel -> weight cs' + 1 < fuel' -> 2 * weight cs < F -> 2 * weight cs' < F' ->
  drain_rd _ (brr_rd s repl 4096 source io_read fuel) F cap (brr_init, mkSrc cs wl t) =
  drain_rd _ (brr_rd s repl 4096 source io_read fuel') F' cap (brr_init, mkSrc cs' wl' t).
Proof. exact brr_chunk_invariant. Qed.

(* Composition for the EDI byte stack: what StripBOM -> Read -> CR removal -> LF removal hands
   to its consumer is a_replace1 LF (a_replace1 CR (a_strip_bom bytes)), under every chunking.
   Partial w.r.t. the full stack statement: the scanner above it and the charmap decoder below it
   are modelled and compared with the real code but not proved. *)
Theorem stack_chunk_invariant_partial : forall N fuel F cap cs cs' wl wl' t data' t',
  4 <= N -> 0 < cap -> concat cs = concat cs' -> runs_ok cs = true -> runs_ok cs' = true ->
  12 * (N + weight cs) + 4 < fuel -> 12 * (N + weight cs) + 4 < F ->
  12 * (N + weight cs') + 4 < fuel -> 12 * (N + weight cs') + 4 < F ->
  a_strip_bom (concat cs, t) = inr (data', t') ->
  exists b1 s1 b2 s2,
    strip_bom source io_read N (mkSrc cs wl t) = Ok (inr b1, s1) /\
    strip_bom source io_read N (mkSrc cs' wl' t) = Ok (inr b2, s2) /\
    drain_rd _ (edi_bytes_rd N fuel) F cap (brr_init, (brr_init, (b1, s1))) =
    drain_rd _ (edi_bytes_rd N fuel) F cap (brr_init, (brr_init, (b2, s2))).
Proof. exact stack_replacing_chunk_invariant. Qed.

Theorem stack_replacing_spec : forall N fuel F cap cs wl t data' t',
  4 <= N -> 0 < cap -> runs_ok cs = true ->
  12 * (N + weight cs) + 4 < fuel -> 12 * (N + weight cs) + 4 < F ->
  a_strip_bom (concat cs, t) = inr (data', t') ->
  exists b s', strip_bom source io_read N (mkSrc cs wl t) = Ok (inr b, s') /\
    drain_rd _ (edi_bytes_rd N fuel) F cap (brr_init, (brr_init, (b, s')))
    = Ok (a_replace1 NL [] (a_replace1 CR [] data'), tail_err t').
Proof. exact stack_replacing_spec. Qed.

(* Non-vacuity of the byte-stack theorems: BOM, CR LF pairs, cut inside each of them. *)
Example c09_stack_nonvacuous :
  let data := [xef; xbb; xbf; x41; x2a; x0d; x0a; x42; x7e; x0d; x0a] in
  let cs := [[xef; xbb]; []; [xbf; x41; x2a; x0d]; [x0a; x42; x7e; x0d]; [x0a]] in
  concat cs = data /\ runs_ok cs = true /\
  a_strip_bom (data, TEof) = inr ([x41; x2a; x0d; x0a; x42; x7e; x0d; x0a], TEof) /\
  match strip_bom source io_read 16 (mkSrc cs true TEof) with
  | Ok (inr b, s') => drain_rd _ (edi_bytes_rd 16 400) 400 3 (brr_init, (brr_init, (b, s')))
                      = Ok ([x41; x2a; x42; x7e], IoEOF)
  | _ => False
  end.
Proof. vm_compute. repeat split; reflexivity. Qed.

(* Non-vacuity: BOM + "ab\r\n" + a 9-byte line (longer than the 8-byte buffer) + "x", cut inside
   the BOM, inside CR LF and with empty chunks, EOF with the last byte -- against one chunk. *)
Example c09_nonvacuous :
  let data := [xef; xbb; xbf; x61; x62; x0d; x0a; x31; x32; x33; x34; x35; x36; x37; x38; x39; x0a; x78] in
  let cs := [[xef]; []; [xbb]; [xbf; x61; x62; x0d]; []; []; [x0a; x31; x32; x33; x34; x35; x36; x37];
             [x38; x39; x0a]; [x78]] in
  concat cs = data /\ runs_ok cs = true /\
  a_bom_lines 8 10 (data, TEof) = Ok (inr ([[x61; x62]; [x31; x32; x33; x34; x35; x36; x37; x38; x39]; [x78]], IoEOF)) /\
  bom_lines 8 60 10 (mkSrc cs true TEof) = bom_lines 8 60 10 (mkSrc [data] false TEof).
Proof. vm_compute. repeat split; reflexivity. Qed.
