(* C09 Results do not depend on how the input reader delivers its bytes.  Statements only; proofs
   in Proofs/Chunk*.v.

   Full statement (per component K of the reader stack WrapEncoding -> StripBOM -> {replacing
   readers} -> {line reader | delimiter scanner}):
     forall cs cs', concat cs = concat cs' -> (no 100 consecutive empty chunks in cs, cs') ->
       output K cs = output K cs'
   shown as  output K cs = F_K (concat cs)  for the pure functions F_K of Model/Chunk.v
   (a_strip_bom, a_read_lines, a_replace1, a_decode).
   Proved below: the source itself, StripBOM, bufio.Reader fill/ReadRune/ReadSlice/ReadLine,
   ios.ByteReadLine, the line loop, and their composition (the stack of both fixed-length formats)
   -- for every buffer size >= 4, every chunking, every tail (EOF or faults), EOF/fault delivered
   with or after the last bytes.  The line-reader theorems carry the guard that the pure function
   is defined (a_read_lines ... = Ok _), which excludes exactly the inputs of known finding F22
   (lines_chunk_refuted).  NOT proved here (model + correspondence only): BytesReplacingReader,
   the delimiter scanner, the charmap decoder (brr_read, scan, dec_read of Model/Chunk.v are
   compared with the real code on every run); encoding/csv|json|xml are assumed chunk-invariant. *)
From Coq Require Import List NArith Bool Arith.
From Coq.Strings Require Import Byte.
Import ListNotations.
From OV Require Import Base.Bytes Model.Chunk Proofs.Chunk Proofs.ChunkLines Proofs.ChunkBom Proofs.ChunkTop.

(* A consumer that reads a source to the end with reads of any fixed positive size sees the same
   bytes and the same final error under every chunking of the same bytes. *)
Theorem drain_chunk_invariant : forall cap fuel fuel' cs cs' wl wl' t,
  0 < cap -> concat cs = concat cs' ->
  weight cs < fuel -> weight cs' < fuel' ->
  drain fuel cap (mkSrc cs wl t) = drain fuel' cap (mkSrc cs' wl' t).
Proof. exact drain_chunk_invariant. Qed.

(* A chunk source without 100 consecutive empty chunks meets the reader contract on which all
   layer theorems rest (each layer is proved over ANY reader meeting it). *)
Theorem source_reader_ok : reader_ok source io_read src_rep src_wt src_lead.
Proof. exact source_reader_ok. Qed.

(* ios.StripBOM over any chunking: fails (NewTransform error) for the same inputs with the same
   error. *)
Theorem stripbom_probe_chunk_invariant : forall N cs cs' wl wl' t,
  4 <= N -> concat cs = concat cs' -> runs_ok cs = true -> runs_ok cs' = true ->
  forall e, (exists s1, strip_bom source io_read N (mkSrc cs wl t) = Ok (inl e, s1)) <->
            (exists s2, strip_bom source io_read N (mkSrc cs' wl' t) = Ok (inl e, s2)).
Proof. exact stripbom_probe_chunk_invariant. Qed.

(* The line reader (bufio.Reader + ios.ByteReadLine until the first error): every chunking of the
   same bytes yields a_read_lines of the bytes. *)
Theorem lines_chunk_invariant : forall N gas gas' fuel cs cs' wl wl' t res,
  4 <= N -> concat cs = concat cs' ->
  runs_ok cs = true -> runs_ok cs' = true ->
  weight cs + 1 < gas -> weight cs' + 1 < gas' ->
  a_read_lines N fuel (concat cs, t) = Ok res ->
  read_lines source io_read N gas fuel b_init (mkSrc cs wl t) = Ok res /\
  read_lines source io_read N gas' fuel b_init (mkSrc cs' wl' t) = Ok res.
Proof. exact lines_chunk_invariant. Qed.

(* Without the guard the statement is false of the faithful model (known finding F22, replayed
   on the Go code from replays/corpus/C09/F22-lastline4096.json). *)
Theorem lines_chunk_refuted :
  exists N cs cs' wl wl' gas fuel,
    concat cs = concat cs' /\ runs_ok cs = true /\ runs_ok cs' = true /\
    read_lines source io_read N gas fuel b_init (mkSrc cs wl TEof) <>
    read_lines source io_read N gas fuel b_init (mkSrc cs' wl' TEof).
Proof. exact lines_chunk_refuted. Qed.

(* Composition: StripBOM then the line reader (what both fixed-length formats run on). *)
Theorem stack_lines_chunk_invariant : forall N gas gas' fuel cs cs' wl wl' t res,
  4 <= N -> concat cs = concat cs' ->
  runs_ok cs = true -> runs_ok cs' = true ->
  weight cs + 1 < gas -> weight cs' + 1 < gas' ->
  a_bom_lines N fuel (concat cs, t) = Ok res ->
  bom_lines N gas fuel (mkSrc cs wl t) = Ok res /\
  bom_lines N gas' fuel (mkSrc cs' wl' t) = Ok res.
Proof. exact stack_lines_chunk_invariant. Qed.

(* Non-vacuity: BOM + "ab\r\n" + a 9-byte line (longer than the 8-byte buffer) + "x", cut inside
   the BOM, inside CR LF and with empty chunks, EOF with the last byte -- against one chunk. *)
Example c09_nonvacuous :
  let data := [xef; xbb; xbf; x61; x62; x0d; x0a; x31; x32; x33; x34; x35; x36; x37; x38; x39; x0a; x78] in
  let cs := [[xef]; []; [xbb]; [xbf; x61; x62; x0d]; []; []; [x0a; x31; x32; x33; x34; x35; x36; x37];
             [x38; x39; x0a]; [x78]] in
  concat cs = data /\ runs_ok cs = true /\
  a_bom_lines 8 10 (data, TEof) = Ok (inr ([[x61; x62]; [x31; x32; x33; x34; x35; x36; x37; x38; x39]; [x78]], IoEOF)) /\
  bom_lines 8 60 10 (mkSrc cs true TEof) = bom_lines 8 60 10 (mkSrc [data] false TEof).
Proof. vm_compute. repeat split; reflexivity. Qed.
