(* C09 Results do not depend on how the input reader delivers its bytes.  Statements only. *)
From Coq Require Import List NArith Bool Arith.
Import ListNotations.
From OV Require Import Base.Bytes Model.Chunk Proofs.Chunk.

(* A consumer that reads a source to the end with reads of any fixed positive size sees the same
   bytes and the same final error under every chunking of the same bytes (any chunk sizes, empty
   chunks, last chunk with or without the error, any tail). *)
Theorem drain_chunk_invariant : forall cap fuel fuel' cs cs' wl wl' t,
  0 < cap -> concat cs = concat cs' ->
  weight cs < fuel -> weight cs' < fuel' ->
  drain fuel cap (mkSrc cs wl t) = drain fuel' cap (mkSrc cs' wl' t).
Proof. exact drain_chunk_invariant. Qed.
