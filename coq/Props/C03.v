(* C03 No panic, no hang: schemas and inputs are untrusted data.  Statements only; proofs are in
   Proofs/Safety*.v.

   FULL STATEMENT (properties.jsonl): NewSchema returns a Schema or an error for any bytes, and for
   any Schema it accepts and any input byte stream, NewTransform and every Read return normally;
   a finite input reaches a terminal result after a number of Reads bounded by its size.

   PARTIAL by nature: panics and hangs inside gojsonschema, antchfx/xpath, goja, encoding/*, regexp
   are not expressible in a model; for them harness/cmd/c03 is a search engine only.  What is
   proved here, for ALL inputs of the respective kind, are the self-contained panic / termination
   sites and the composition bound; the readers themselves are modelled under C04..C07. *)
From Coq Require Import List NArith ZArith Bool Lia String.
From Coq.Strings Require Import Byte.
Import ListNotations.
Local Open Scope string_scope.
Local Open Scope list_scope.
From OV Require Import Base.Bytes Base.Utf8 Base.ErrClass Gen.Safety Model.Latch Proofs.Latch Model.Safety
  Proofs.SafetyInvoke Proofs.SafetyValidate Proofs.SafetyJson Proofs.SafetyCsv Proofs.SafetyRlf
  Proofs.SafetyFixed Proofs.SafetyReads Proofs.SafetyMisc Proofs.SafetyFaultReaders.
(* C05's model: names qualified (Model.Hier and Model.Safety both have an [outcome]) *)
From OV Require Model.Hier Model.HierSpec Proofs.HierInst Proofs.HierMain Proofs.HierTerm Proofs.SafetyHier.

(* ---- custom_func invocation (transform/invokeCustomFunc.go) ---------------------------------- *)
(* For every signature whose first parameter accepts *transformctx.Ctx (registration is the
   caller's side of the contract) and every list of evaluated arguments -- any count, any types,
   nil, failing -- prepArgValues returns an error or reflect.Call is entered with an argument
   list it accepts. *)
Theorem invoke_no_panic : forall f args, sig_ok f -> invoke f args <> OPanic.
Proof. exact invoke_no_panic_lemma. Qed.

Example invoke_panic_old_refuted :
  invoke_old sig_upper [] = OPanic /\ invoke_old sig_upper [AVal TInt64] = OPanic
  /\ invoke_old sig_javascript [ANil] = OPanic
  /\ invoke sig_upper [] = OErr /\ invoke sig_upper [AVal TInt64] = OErr /\ invoke sig_javascript [ANil] = OCalled.
Proof. exact invoke_panic_old_refuted_lemma. Qed.

Example invoke_nonvacuous :
  sig_ok sig_javascript_ctx
  /\ invoke sig_javascript_ctx [AVal TString; AVal TString; AVal TInt64; AVal TString; ANil] = OCalled
  /\ invoke sig_javascript_ctx [] = OErr.
Proof. split; [exists TCtx, [TNode; TString; TAny]; split; reflexivity|vm_compute; split; reflexivity]. Qed.

(* ---- template expansion (transform/validate.go) ---------------------------------------------- *)
(* For every declaration set -- cyclic, self-referential, referencing undeclared names, with JSON
   nulls where a declaration is expected (possible below xpath_dynamic) -- the expansion of
   FINAL_OUTPUT needs recursion depth at most (number of declarations + 1) and never dereferences a
   nil declaration (fix 86abe20). *)
Theorem validate_terminates : forall g,
  validate_templates g <> VOutOfFuel /\ validate_templates g <> VPanic.
Proof. exact validate_terminates_lemma. Qed.

(* ... and it is accepted only if nothing reachable from FINAL_OUTPUT lies on a reference cycle
   and no reachable declaration contains a null. *)
Theorem validate_cycle_rejected : forall g,
  validate_templates g = VOk ->
  forall u, path g 0 u ->
    (forall v, edge g u v -> ~ path g v u) /\ (forall body, nth_error g u = Some body -> ~ In None body).
Proof. exact validate_cycle_rejected_lemma. Qed.

Example validate_nonvacuous :
  validate_templates [[Some 1; Some 2]; [Some 2]; []] = VOk        (* a diamond: accepted *)
  /\ validate_templates [[Some 1]; [Some 2]; [Some 1]] = VErrCycle  (* T1 -> T2 -> T1 *)
  /\ validate_templates [[Some 1]; [Some 0]] = VErrCycle            (* back to FINAL_OUTPUT *)
  /\ validate_templates [[Some 1]; [Some 7]] = VErrMissing
  /\ validate_templates [[]; [Some 2]; [Some 1]] = VOk              (* an unused cycle is never expanded *)
  /\ validate_templates [[Some 1]; [None]] = VErrNull               (* a null inside a used template *)
  /\ validate_templates [[]; [None]] = VOk.                         (* ... inside an unused one *)
Proof. vm_compute. repeat split; reflexivity. Qed.

Example validate_null_old_refuted :
  validate_templates_old [[None]] = VPanic /\ validate_templates [[None]] = VErrNull.
Proof. vm_compute. split; reflexivity. Qed.

(* ---- integer members of file_declaration (the five format.go ValidateSchema) ------------------- *)
(* For every JSON number literal (plain, with fraction / exponent, out of int64): what the
   rows-based readers receive as by_rows / rows after schema validation is >= 1 -- the JSON-schema
   minimum and "the json.Unmarshal error is returned" are both re-read from the source into
   Gen/Safety.v (fix 5f762bb). *)
Theorem rows_validated : forall l v,
  (schema_int fixed_unmarshal_checked fixed_by_rows_min l = IStored v \/
   schema_int csv2_unmarshal_checked csv2_rows_min l = IStored v \/
   schema_int fixed2_unmarshal_checked fixed2_rows_min l = IStored v) -> (1 <= v)%Z.
Proof. exact rows_validated_lemma. Qed.

Example rows_zero_old_refuted :
  schema_int false (Some 1%Z) (mkLit true (10 ^ 30) false) = IStored 0
  /\ schema_int false (Some 1%Z) (mkLit true 1 false) = IStored 0
  /\ schema_int false (Some 1%Z) (mkLit true 9223372036854775808 true) = IStored 0
  /\ schema_int true (Some 1%Z) (mkLit true (10 ^ 30) false) = IRejected
  /\ schema_int true (Some 1%Z) (mkLit true 1 false) = IRejected
  /\ schema_int true (Some 1%Z) (mkLit true 3 true) = IStored 3.
Proof. exact rows_zero_old_refuted_lemma. Qed.

(* ---- duplicated top level schema keys (validation/jsonvalidate.go, N9) -------------------------- *)
(* For every root object (members in text order, literal duplicates and letter-case variants
   included) and every required section: if SchemaValidate accepts it -- with the top-level-key
   check it applies on the valid path according to Gen/Safety.v (fix 53ef0bb) -- then every member
   json.Unmarshal loads into that section's struct field passed the section's JSON schema. *)
Theorem dup_keys_validated : forall root name fname,
  (forall m, In m root -> m_exact m = name -> m_fold m = fname) ->
  section_accepted schema_validate_checks_top_level_keys name root = true ->
  forall m, In m (loaded fname root) -> m_valid m = true.
Proof. exact dup_keys_validated_lemma. Qed.

Example dup_keys_old_refuted :
  let root := [mkM 1 1 true; mkM 2 1 false] in
  section_accepted false 1 root = true /\ existsb (fun m => negb (m_valid m)) (loaded 1 root) = true
  /\ section_accepted true 1 root = false.
Proof. exact dup_keys_old_refuted_lemma. Qed.

(* ---- idr/query.go wrappers; javascript results ------------------------------------------------ *)
(* Whatever the xpath engine does on a compiled expression (panic, or any number of nodes; the
   engine itself is third party and not modelled) MatchAny / matchNode and MatchAll / MatchSingle
   return normally (fix e7ccd30). *)
Theorem query_wrappers_no_panic : forall e,
  match_any true e <> QPanic /\ match_single true e <> QPanic.
Proof. exact query_wrappers_no_panic_lemma. Qed.

Example query_panic_old_refuted :
  match_any false EngPanic = QPanic /\ match_single false EngPanic = QPanic
  /\ match_any true EngPanic = QBool false /\ match_single true EngPanic = QErr.
Proof. exact query_panic_old_refuted_lemma. Qed.

(* FULL STATEMENT "every javascript completion value becomes an error or a value": false of the
   faithful model -- a Map / Set containing itself makes goja's own Export overflow the stack
   (known finding N8, witness below).  Proved under the named guard js_no_map_set. *)
Theorem javascript_result_no_panic_partial : forall v,
  v <> JsMapSetSelf (* guard js_no_map_set *) -> js_result v = JsErr \/ js_result v = JsValue.
Proof. exact javascript_result_no_panic_lemma. Qed.

Example javascript_mapset_refuted : js_result JsMapSetSelf = JsFatal.
Proof. exact javascript_mapset_refuted_lemma. Qed.

Example javascript_old_refuted :
  js_result_old true JsGetterThrows = JsPanicEscapes /\ js_result_old true JsCyclic = JsFatal
  /\ js_result JsGetterThrows = JsErr /\ js_result JsCyclic = JsErr.
Proof. exact javascript_old_refuted_lemma. Qed.

(* ---- JSON stream reader cursor (idr/jsonreader.go) ------------------------------------------- *)
(* For ANY token sequence (no hypothesis), any number of top-level values, over any number of
   Read calls: sp.cur is never dereferenced while nil. *)
Theorem json_stream_cursor_no_nil_deref : forall ts c, jreader_run jreader_step c ts <> inl NilDeref.
Proof. exact json_stream_no_nil_deref_lemma. Qed.

(* For every token sequence json.Decoder can emit (hypothesis dec_accepts = the decoder's key /
   value grammar; trusted, see bin/props.py) starting from a fresh reader: no panic at all -- in
   particular the unchecked tok.(string) for an object key is safe. *)
Theorem json_stream_cursor_no_panic : forall ts,
  dec_accepts [] ts = true -> exists c', jreader_run jreader_step [j_root] ts = inr c'.
Proof. intros ts H. exact (json_stream_cursor_no_panic_lemma ts [] [j_root] inv_init H). Qed.

Example json_stream_panic_old_refuted :
  let ts := [JObjOpen; JString; JScalar; JObjClose; JObjOpen; JString; JScalar; JObjClose] in
  dec_accepts [] ts = true /\ jreader_run jreader_step_old [j_root] ts = inl NilDeref
  /\ jreader_run jreader_step [j_root] ts = inr [].
Proof. exact json_stream_panic_old_refuted_lemma. Qed.

(* ---- csv delimiters and the jumpTo loop (csv/format.go, csv/reader.go, flatfile/csv/format.go) - *)
(* Every delimiter string the csv (fmt 0) or csv2 schema validation accepts -- JSON-schema length
   bounds and isValidDelimiter as extracted into Gen/Safety.v -- is usable by encoding/csv. *)
Theorem csv_delim_progress :
  forall (d : bytes) (fmt : N), csv_accepts_delimiter fmt d = true ->
  stdcsv_delim_usable (fst (decode_rune d)) = true.
Proof. exact csv_delim_progress_lemma. Qed.

(* jumpTo as it is in the source now (Gen/Safety.v: csv_jumpto_fails_on_non_parse_error, fix
   35247f5) ends within (remaining lines + 1) iterations for every row index, every reader state,
   every record layout [span] consuming >= 1 line per Read, every delimiter (usable or not) and
   every failure pattern of the input reader. *)
Theorem csv_jump_terminates :
  forall span io_fails, (forall s, 0 < lines_left s -> 1 <= span s <= lines_left s) ->
  forall usable row s,
    jump_gen span io_fails csv_jumpto_fails_on_non_parse_error (lines_left s + 1) usable row s <> JumpOutOfFuel.
Proof. exact csv_jump_terminates_lemma. Qed.

(* The pre-fix loop: an unusable delimiter spins for every fuel (F15); a persistently failing input
   needs as many iterations as the schema's row index (N10). *)
Example csv_delim_hang_old_refuted :
  (exists r : N, stdcsv_delim_usable r = false /\
    forall span io_fails fuel, jump_to_old span io_fails fuel (stdcsv_delim_usable r) 1 (mkCsv 0 3) = JumpOutOfFuel)
  /\ (forall span fuel row, fuel <= row -> jump_to_old span (fun _ => true) fuel true row (mkCsv 0 3) = JumpOutOfFuel)
  /\ jump_to (fun _ => 1) (fun _ => true) 4 true 4000 (mkCsv 0 3) = JumpFailed
  /\ jump_to (fun _ => 1) (fun _ => false) 4 false 2 (mkCsv 0 3) = JumpFailed.
Proof. exact csv_delim_hang_old_refuted_lemma. Qed.

(* ---- failing input reader: the old csv reader and the fixed-length by_rows reader -------------- *)
(* The old csv reader (Read / checkHeader / jumpTo), at line level, with the three error
   classification shapes as extracted from the source (Read returns a latched readErr first; Read
   latches a non-ParseError; jumpTo fails out on a non-ParseError).  For every record layout, every
   pattern of csv.ParseErrors, target-xpath matches and header outcome, every header / data row
   index, every reader state, over a source of [lines_left] good lines followed by a clean end or
   (fault = true) a persistent failure: every Read ends; a failure is never turned into io.EOF;
   a Read that is not terminal (a record, a per-record ParseError) consumed >= 1 line; hence the
   terminal result -- io.EOF, ErrInvalidHeader or the latched read error -- comes within
   (lines + 1) Reads. *)
Theorem csv_fault_reads_bound :
  forall span parse_err matches header_ok fault,
  (forall s, 0 < lines_left s -> 1 <= span s <= lines_left s) ->
  forall hdr data r,
  let read := csv_reader_read span (tail_fails fault) parse_err matches header_ok
                csv_read_returns_latched_first csv_read_latches_non_parse_error csv_jumpto_fails_on_non_parse_error in
  (forall r0, let '(r', c) := read (lines_left (cr_st r0) + 1) true hdr data r0 in
     c <> CrOutOfFuel /\ (c = CrEOF -> fault = false) /\
     (cres_terminal c = false -> lines_left (cr_st r') < lines_left (cr_st r0))) /\
  exists n, reads_to_terminal crd
              (fun r0 => let '(r', c) := read (lines_left (cr_st r0) + 1) true hdr data r0 in (r', cres_terminal c))
              (lines_left (cr_st r) + 1) r = Some n
            /\ 1 <= n <= lines_left (cr_st r) + 1.
Proof. exact csv_fault_reads_bound_lemma. Qed.

(* before F10 (no latch in Read): a continuable error for ever; before N10 (jumpTo ignores the
   failure): the first Read needs as many steps as the row index *)
Example csv_fault_old_refuted :
  let r0 := mkCrd (mkCsv 0 0) true false in
  (forall n, reads_to_terminal crd
     (fun r => let '(r', c) := csv_reader_read (fun _ => 1) (tail_fails true) (fun _ => false) (fun _ => true) (fun _ => true)
                                  true false true 5 true None 1 r in (r', cres_terminal c)) n r0 = None)
  /\ snd (csv_reader_read (fun _ => 1) (tail_fails true) (fun _ => false) (fun _ => true) (fun _ => true)
            true true false 50 true None 100 (mkCrd (mkCsv 0 0) false false)) = CrOutOfFuel
  /\ snd (csv_reader_read (fun _ => 1) (tail_fails true) (fun _ => false) (fun _ => true) (fun _ => true)
            true true true 1 true None 100 (mkCrd (mkCsv 0 0) false false)) = CrLatched.
Proof. exact csv_fault_old_refuted_lemma. Qed.

(* The old fixed-length reader with a by_rows envelope: for every by_rows >= 1 (what rows_validated
   gives for an accepted schema), every target-xpath pattern, every number of lines and both kinds
   of end, with the condition of the raw-error return as extracted from the source: every Read
   ends, the input error is never returned raw (continuable) and never as io.EOF, a non-terminal
   Read consumed >= 1 line, and the terminal result comes within (lines + 1) Reads. *)
Theorem fixed_by_rows_reads_bound :
  forall rows fl_matches, 1 <= rows -> forall s,
  let read := fl_read rows fl_matches fixed_by_rows_raw_error_only_clean_eof in
  (forall s0, let '(s', c) := read (fl_left s0 + 1) s0 in
     c <> FlOutOfFuel /\ c <> FlRawErr /\ (c = FlEOF -> fl_fault s0 = false) /\
     (flres_terminal c = false -> fl_left s' < fl_left s0)) /\
  exists n, reads_to_terminal flst (fun s0 => let '(s', c) := read (fl_left s0 + 1) s0 in (s', flres_terminal c))
              (fl_left s + 1) s = Some n /\ 1 <= n <= fl_left s + 1.
Proof. exact fixed_by_rows_reads_bound_lemma. Qed.

(* seed C03-r43: with `i == 0` alone as the condition, a failure at an envelope boundary is
   returned raw and every Read meets it again *)
Example fixed_by_rows_old_refuted :
  (forall n, reads_to_terminal flst
     (fun s0 => let '(s', c) := fl_read 1 (fun _ => true) false (fl_left s0 + 1) s0 in (s', flres_terminal c))
     n (mkFl 0 true) = None)
  /\ fl_read 1 (fun _ => true) true 1 (mkFl 0 true) = (mkFl 0 true, FlFatal).
Proof. exact fixed_by_rows_old_refuted_lemma. Qed.

Example fault_readers_nonvacuous :
  (* header row 2, data row 4, five one-line rows, then a persistent failure: rows 4 and 5 are
     records, the third Read returns the latched error *)
  csv_run 9 (Some 2) 4 true true (mkCrd (mkCsv 0 5) false false) = [0; 0; 4]%N
  /\ csv_run 9 (Some 2) 4 false true (mkCrd (mkCsv 0 5) false false) = [3]%N
  /\ csv_run 9 None 3 true true (mkCrd (mkCsv 0 1) false false) = [4]%N
  /\ csv_run 9 None 1 true false (mkCrd (mkCsv 0 2) false false) = [0; 0; 2]%N
  (* by_rows 2 over five lines: two envelopes, then the incomplete one is fatal; with a failure
     at the envelope boundary: fatal, not EOF *)
  /\ fl_run 9 2 (mkFl 5 false) = [0; 0; 3]%N /\ fl_run 9 2 (mkFl 4 false) = [0; 0; 2]%N
  /\ fl_run 9 2 (mkFl 4 true) = [0; 0; 3]%N.
Proof. vm_compute. repeat split; reflexivity. Qed.

Example csv_delim_nonvacuous :
  csv_accepts_delimiter 0 [x2c]%byte = true /\ csv_accepts_delimiter 1 [xe6; x97; xa5]%byte = true
  /\ csv_accepts_delimiter 0 [x22]%byte = false /\ csv_accepts_delimiter 1 [xef; xbf; xbd]%byte = false
  /\ csv_accepts_delimiter 0 [x7c; x7c]%byte = false /\ csv_accepts_delimiter 0 [] = false
  /\ jump_to (fun _ => 2) (fun _ => false) 6 true 4 (mkCsv 0 5) = JumpDone (mkCsv 4 1).
Proof. vm_compute. repeat split; reflexivity. Qed.

(* ---- removeLastFilterInXPath / removeTrailingFiltersInXPath (idr/util.go) --------------------- *)
(* Total on every byte string (no index or slice out of range); the result is the input itself or
   the encoding of a strict rune-prefix of the input. *)
Theorem remove_last_filter_total : forall s : bytes,
  exists out, remove_last_filter s = Some out /\
    (out = s \/ exists n, n < List.length (runes s) /\ out = encode_runes (firstn n (runes s))).
Proof. exact remove_last_filter_total_lemma. Qed.

(* On every valid UTF-8 string -- every Go string that comes out of encoding/json, i.e. every
   schema string -- the result is a byte prefix of the input.  (For arbitrary byte strings the
   statement is false: Go re-encodes []rune, witness below; that is the whole gap.)  The round trip
   encode_runes (runes s) = s for valid UTF-8 comes from C06's complete byte sweeps. *)
Theorem remove_last_filter_prefix : forall s : bytes,
  utf8_valid s = true -> exists out, remove_last_filter s = Some out /\ is_prefix out s.
Proof. exact remove_last_filter_prefix_utf8_lemma. Qed.

Example remove_last_filter_bytes_prefix_refuted :
  exists s out, remove_last_filter s = Some out /\ ~ is_prefix out s.
Proof. exact remove_last_filter_bytes_prefix_refuted_lemma. Qed.

(* The loop the two stream readers run terminates on every string. *)
Theorem remove_trailing_filters_terminates : forall s : bytes,
  exists out, remove_trailing_filters s = Some out.
Proof. exact remove_trailing_filters_terminates_lemma. Qed.

Example remove_last_filter_nonvacuous :
  (* /A/B[.='3'] ; a quoted bracket ; nested ; two filters ; non-ASCII valid UTF-8 *)
  remove_last_filter (hx "2f412f425b2e3d2733275d") = Some (hx "2f412f42")
  /\ remove_last_filter (hx "615b2e3d275d275d") = Some (hx "61")
  /\ remove_last_filter (hx "615b625b635d5d") = Some (hx "61")
  /\ remove_trailing_filters (hx "615b315d205b325d") = Some (hx "61")
  /\ remove_last_filter (hx "c3a95be697a55d") = Some (hx "c3a9")
  /\ utf8_valid (hx "c3a95be697a55d") = true
  /\ remove_last_filter (hx "615d") = Some (hx "615d").
Proof. vm_compute. repeat split; reflexivity. Qed.

(* ---- fixed-length column extraction (fixedlength/decl.go, flatfile/fixedlength/decl.go) -------- *)
(* For EVERY start_pos and length (any integer: what JSON-schema validation guarantees --
   Gen/Safety.v: minimum 1 -- is not needed) and every line, lineToColumnValue never slices out of
   range, and the value is a contiguous piece of the line. *)
Theorem fixed_slice_no_panic : forall (start_pos len : Z) (line : bytes),
  exists v pre post, line_to_column_value start_pos len line = FVal v /\ line = pre ++ v ++ post.
Proof. exact fixed_slice_no_panic_lemma. Qed.

Example fixed_slice_nonvacuous :
  fixed_start_pos_min = Some 1%Z /\ fixed2_length_min = Some 1%Z
  /\ line_to_column_value 2 3 (hx "61c3a9e697a5ff62") = FVal (hx "c3a9e697a5ff")
  /\ line_to_column_value 0 2 (hx "6162") = FVal (hx "6162")
  /\ line_to_column_value (-9223372036854775808) 2 (hx "6162") = FVal []
  /\ line_to_column_value 9 9 (hx "6162") = FVal [].
Proof. vm_compute. repeat split; reflexivity. Qed.

(* ---- composition: reads to a terminal result ------------------------------------------------- *)
(* Any reader whose every non-terminal Read consumes at least one input unit reaches a terminal
   result within units + 1 Reads. *)
Theorem reads_bound_generic : forall (R : Type) (rd : R -> R * bool) (units : R -> nat),
  (forall r, snd (rd r) = false -> units (fst (rd r)) < units r) ->
  forall r, exists n, reads_to_terminal R rd (units r + 1) r = Some n /\ 1 <= n <= units r + 1.
Proof. intros R rd units Hp r. apply (reads_bound_generic R rd units Hp). lia. Qed.

(* On the Transform of Model/Latch.v, over ANY ingester with that progress property, from any state
   without a latched terminal error: some Read number k+1 <= units+1 returns a terminal error e,
   no earlier Read is terminal, and every later call (any mix of Read and RawRecord) returns e
   again without touching the ingester (Proofs.Latch terminal stickiness). *)
Theorem read_terminates_bound :
  forall (S : Type) (ing_step : S -> S * (option N * option N * option errv))
         (ing_cont : S -> errv -> bool) (units : S -> nat),
  (forall s, out_terminal (snd (do_read S ing_step ing_cont s)) = false ->
             units (snd (fst (do_read S ing_step ing_cont s))) < units s) ->
  forall s, exists k e, k <= units s /\
    let st1 := fst (run S ing_step ing_cont (t_init, s) (repeat OpRead k)) in
    is_terminal (snd (read S ing_step ing_cont st1)) e /\
    Forall (fun o => out_terminal o = false) (snd (run S ing_step ing_cont (t_init, s) (repeat OpRead k))) /\
    forall ops2, run S ing_step ing_cont (t_init, s) (repeat OpRead k ++ OpRead :: ops2) =
      (fst (read S ing_step ing_cont st1),
       snd (run S ing_step ing_cont (t_init, s) (repeat OpRead k)) ++
       snd (read S ing_step ing_cont st1) :: map (sticky_out e) ops2).
Proof.
  intros S ing_step ing_cont units Hp s.
  exact (read_terminates_bound_lemma S ing_step ing_cont units Hp (units s) t_init s I (le_n _)).
Qed.

(* Non-vacuity of the progress hypothesis: the scripted ingester of Model/Latch.v with units =
   remaining script + 1 (the end of the script yields EOF... here a 3-step script: a record, a
   per-record failure, then EOF at step 3 <= units + 1 = 4). *)
Example read_terminates_nonvacuous :
  let eof := mkErr CEOF 7 2 3 in
  let script := [mkIng (Some 1%N) (Some 10%N) None false;
                 mkIng None None (Some (mkErr COther 8 4 5)) true;
                 mkIng None None (Some eof) false] in
  let s0 := mkS script false 0 false in
  map out_terminal (snd (run sing sing_step sing_cont (t_init, s0) (repeat OpRead 5)))
    = [false; false; true; true; true].
Proof. vm_compute. reflexivity. Qed.

(* ---- closed instances of the Read bound: the hierarchy reader (csv2, fixedlength2, EDI) --------- *)
(* C05 proves the stack machine of flatfile/hierarchyReader.go (and of edi/reader.go) equal to the
   recursive specification, for every validated declaration list and every unit sequence.  On the
   specification every delivered target is paid for by >= 1 consumed unit (spec_deliveries_le_units),
   so over the Read sequence of a run -- one Read per delivery, then the terminal one -- the
   progress hypothesis of reads_bound_generic is discharged and the terminal result comes at Read
   number n <= (number of lines / segments) + 1, with no hypothesis left. *)
Theorem hier_reads_bound : forall ds us,
  forallb HierInst.wfb ds = true -> Hier.count_tgts ds <= 1 ->
  exists n, reads_to_terminal _ SafetyHier.run_reader (List.length (fst (Hier.run_kind Hier.KHier ds us)) + 1) (Hier.run_kind Hier.KHier ds us) = Some n
            /\ 1 <= n <= List.length us + 1.
Proof. exact SafetyHier.hier_reads_bound_lemma. Qed.

(* EDI, inside C05's guard no_root_repeat (its known finding F14). *)
Theorem edi_reads_bound : forall ds us,
  forallb HierInst.wfb ds = true -> Hier.count_tgts ds <= 1 -> HierMain.no_root_repeat Hier.edi_leaf ds us ->
  exists n, reads_to_terminal _ SafetyHier.run_reader (List.length (fst (Hier.run_kind Hier.KEdi ds us)) + 1) (Hier.run_kind Hier.KEdi ds us) = Some n
            /\ 1 <= n <= List.length us + 1.
Proof. exact SafetyHier.edi_reads_bound_lemma. Qed.

(* Non-vacuity, and the bound is tight: a one-line target record over two lines is delivered
   twice, the third Read is the terminal one (3 = units + 1); a header record, a group with a
   two-line target and a trailer over five lines: two deliveries, terminal at Read 3 <= 6. *)
Example hier_reads_nonvacuous :
  let ds1 := [Hier.D 1 false true 0 None (Hier.LRows 1) []] in
  let us1 := [Hier.U 7 1; Hier.U 7 2] in
  let ds2 := [Hier.D 1 false false 0 (Some 1) (Hier.LName 1) [];
              Hier.D 2 true false 0 None (Hier.LRows 0) [Hier.D 3 false true 1 None (Hier.LRows 2) []]] in
  let us2 := [Hier.U 1 1; Hier.U 9 2; Hier.U 9 3; Hier.U 9 4; Hier.U 9 5] in
  forallb HierInst.wfb ds1 = true /\ Hier.count_tgts ds1 = 1
  /\ reads_to_terminal _ SafetyHier.run_reader 3 (Hier.run_kind Hier.KHier ds1 us1) = Some 3
  /\ forallb HierInst.wfb ds2 = true /\ Hier.count_tgts ds2 = 1
  /\ reads_to_terminal _ SafetyHier.run_reader 6 (Hier.run_kind Hier.KHier ds2 us2) = Some 3.
Proof. vm_compute. repeat split; reflexivity. Qed.
