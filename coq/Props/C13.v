(* C13 Caches and pools are semantically invisible.  Statements only; proofs in
   Proofs/Pipeline*.v.  The hidden process state hid = (node ID counter, node pool contents,
   pooling switch, schedule of sync.Pool choices; transform memo switch; evaluator-side caches)
   is an explicit argument of the pipeline model; the theorems quantify over ALL pairs of hidden
   states satisfying the invariant, all schemas inside the guard, all envelopes and record streams. *)
From Coq Require Import List NArith Bool Lia.
From Coq.Strings Require Import Byte.
Import ListNotations.
From OV Require Import Model.Value Model.XPathFrag Model.Decl Model.Eval Proofs.PipelineC02 Gen.DeclHash.
From OV Require Import Base.Bytes Base.Tree Model.Pipeline Proofs.Pipeline Proofs.PipelineCache Proofs.PipelineInst Proofs.PipelineCanon.

Section C13.
  Variable schema V C : Type.
  Variable c0 : C.                                  (* all evaluator-side caches empty *)
  Variable eval : bool -> C -> schema -> world -> option V * C.   (* ParseNode: memo switch, caches *)
  Variable marshal : V -> option bytes.
  Variable marshal_err_cont : bool.
  Variable H : bytes -> bytes.
  Variable canon : tree -> bytes.
  Variable CInv : list N -> C -> Prop.              (* cache invariant relative to the IDs handed out so far *)
  Variable content_stable_per_id : schema -> Prop.  (* guard of DESIGN section 6 F6 *)
  (* what the pipeline level needs from the evaluator (C02), the caches (C13 ingredients
     expr_cache_pure / js_isolation / node_json_fresh, C20) - to be instantiated by the integrator *)
  Hypothesis CInv_mono : forall used used' c,
    (forall x, In x used -> In x used') -> CInv used c -> CInv used' c.
  Hypothesis eval_cache_transparent : forall s w,
    content_stable_per_id s -> NoDup (w_ids w) ->
    fst (eval true c0 s w) = fst (eval false c0 s w).
  Hypothesis eval_id_renaming : forall (f : N -> N) m s w,
    content_stable_per_id s -> NoDup (w_ids w) ->
    (forall x y, In x (w_ids w) -> In y (w_ids w) -> f x = f y -> x = y) ->
    fst (eval m c0 s (w_rename f w)) = fst (eval m c0 s w).
  Hypothesis eval_caches_sound : forall used c m s w,
    CInv used c -> (forall i, In i (w_rec_ids w) -> ~ In i used) -> content_stable_per_id s ->
    NoDup (w_ids w) ->
    fst (eval m c s w) = fst (eval m c0 s w) /\ CInv (w_rec_ids w ++ used) (snd (eval m c s w)).
  Notation run_env := (run_env schema V C eval marshal marshal_err_cont H canon).
  Notation Inv := (Inv C CInv).

  Variable input : Type.
  Variable reader : input -> list tree * list runit.
  Notation run := (run schema V C eval marshal marshal_err_cont H canon input reader).

  (* The full statement.  Without the guard it is FALSE of the faithful model (and of the code):
     caches_invisible_refuted below, DESIGN section 6 F6. *)
  Theorem caches_invisible : forall h h' s i,
    Inv h -> Inv h' -> content_stable_per_id s -> run h s i = run h' s i.
  Proof. exact (caches_invisible schema V C c0 eval marshal marshal_err_cont H canon CInv content_stable_per_id CInv_mono eval_cache_transparent eval_id_renaming eval_caches_sound input reader). Qed.

  (* the same over an explicit envelope + unit list *)
  Theorem caches_invisible_env : forall h h' s ctx us,
    Inv h -> Inv h' -> content_stable_per_id s -> run_env h s ctx us = run_env h' s ctx us.
  Proof. exact (caches_invisible_env schema V C c0 eval marshal marshal_err_cont H canon CInv content_stable_per_id CInv_mono eval_cache_transparent eval_id_renaming eval_caches_sound). Qed.

  (* Inv is an invariant of process histories: a transform leaves a state satisfying it *)
  Theorem inv_preserved : forall h s ctx us,
    Inv h -> content_stable_per_id s ->
    Inv (after schema V C eval marshal marshal_err_cont H canon h s ctx us).
  Proof. exact (Inv_after schema V C c0 eval marshal marshal_err_cont H canon CInv content_stable_per_id CInv_mono eval_cache_transparent eval_id_renaming eval_caches_sound). Qed.
End C13.


(* ---- with the C02 evaluator: no evaluator hypothesis left ---------------------------------------- *)
(* eval_c02 (Proofs/PipelineC02.v) = Model/Eval.v's ParseNode model run on the document
   T DocumentNode [] FNone (ctx ++ [record]) at the record, node IDs = the world's IDs by preorder
   index; eval_cache_transparent / eval_id_renaming are discharged by Proofs/EvalCache.v
   (caches_invisible_eval, eval_id_renaming, memo_sound_nil).  What remains assumed: the xpath
   engine returns nodes of the tree it is run on (query_valid); engine, externals and custom
   functions are deterministic functions (Section variables). *)
Section C13_C02.
  Variable query : tree -> bytes -> path -> option (list path).
  Variable ext : bytes -> option bytes.
  Variable fsigs : bytes -> option fsig.
  Variable fcall : tree -> bytes -> path -> list value -> cfres.
  Variable pcall : tree -> bytes -> path -> cfres.
  Hypothesis query_valid : forall root x p ps,
    valid root p -> query root x p = Some ps -> Forall (valid root) ps.
  Variable marshal : value -> option bytes.
  Variable marshal_err_cont : bool.
  Variable H : bytes -> bytes.
  Variable canon : tree -> bytes.
  Notation eval_c02 := (eval_c02 query ext fsigs fcall pcall).
  Notation run_env_c02 := (run_env vdecl value unit eval_c02 marshal marshal_err_cont H canon).

  (* all hidden states: node pool on / off / any contents, any sync.Pool schedule, any counter
     value, transform memo on / off; all declaration trees (ill-formed ones fail every record in
     both runs), all envelopes, all record streams *)
  Theorem caches_invisible_c02 : forall h h' s ctx us,
    Inv0 h -> Inv0 h' -> run_env_c02 h s ctx us = run_env_c02 h' s ctx us.
  Proof. exact (caches_invisible_c02 query ext fsigs fcall pcall query_valid marshal marshal_err_cont H canon). Qed.

  (* ... tied to the source: the evaluator model identifies a declaration's hash with the
     declaration (Model/Decl.v wf_b: v_hash = pub_of d).  That is a fact about
     validate.go computeDeclHash - the hash table is keyed by the declaration's FULL encoding -
     which is re-extracted from the source on every run (Gen/DeclHash.v), together with the fact
     that the id stored for a new encoding is fresh (uuid / counter).  A change that keys the
     table by anything coarser, or derives the id from a digest of the encoding, makes the first
     conjunct unprovable. *)
  Theorem caches_invisible_c02_src :
    decl_hash_injective = true /\
    forall h h' s ctx us, Inv0 h -> Inv0 h' -> run_env_c02 h s ctx us = run_env_c02 h' s ctx us.
  Proof.
    exact (conj (eq_refl true)
                (PipelineC02.caches_invisible_c02 query ext fsigs fcall pcall query_valid marshal marshal_err_cont H canon)).
  Qed.
End C13_C02.

(* ---- the transform-result cache key determines the result ------------------------------------------ *)
From OV Require Proofs.PipelineKey.
Section C13_Key.
  Variable root : tree.
  Variable query : bytes -> path -> option (list path).
  Variable ext : bytes -> option bytes.
  Variable fsigs : bytes -> option fsig.
  Variable fcall : bytes -> path -> list value -> cfres.    (* custom functions: they receive the node *)
  Variable pcall : bytes -> path -> cfres.
  Variable V : path -> Prop.
  Variable top : vdecl.
  Hypothesis query_V : forall x p ps, V p -> query x p = Some ps -> Forall V ps.
  Hypothesis top_wf : wf_b true top = true.
  Variable K : Type.
  Variable nid : path -> K.
  Hypothesis nid_inj : forall p q, V p -> V q -> nid p = nid q -> p = q.

  (* for ALL declaration kinds of a validated tree (const, external, field, object, array,
     custom_func - incl. those taking the node implicitly such as copy and
     javascript_with_context -, custom_parse) and all nodes: equal keys (node ID, declaration hash,
     xpathQueryNeeded) => equal results *)
  Theorem cache_key_determines_result : forall d1 d2 p1 p2,
    In d1 (subdecls top) -> In d2 (subdecls top) -> V p1 -> V p2 ->
    PipelineKey.cache_key K nid d1 p1 = PipelineKey.cache_key K nid d2 p2 ->
    eval_nocache root query ext fsigs fcall pcall d1 p1 = eval_nocache root query ext fsigs fcall pcall d2 p2.
  Proof. exact (PipelineKey.cache_key_determines_result root query ext fsigs fcall pcall V top query_V top_wf K nid nid_inj). Qed.
End C13_Key.

(* the node component of the key is necessary: a custom function's answer may depend on the node *)
Theorem key_without_node_refuted :
  exists (fcall : bytes -> path -> list value -> cfres) (name : bytes) (p1 p2 : path) (args : list value),
    p1 <> p2 /\ fcall name p1 args <> fcall name p2 args.
Proof. exact PipelineKey.key_without_node_refuted. Qed.

(* the extracted source fact on its own *)
Theorem decl_hash_key_full : decl_hash_key_is_full_encoding = true.
Proof. reflexivity. Qed.

(* ... and the id stored for a new encoding comes from a source that never repeats within a schema
   (uuid / counter), not from a digest of the encoding: equal hashes <=> equal encodings *)
Theorem decl_hash_ids_injective : decl_hash_injective = true.
Proof. reflexivity. Qed.

(* Node pool facts the proof rests on (the pipeline-level counterpart of C12's fresh_blank /
   pool_disjoint_nodup / ids_unique), proved here for the allocator model of Model/Pipeline.v:
   with or without pooling, for every schedule of sync.Pool choices, the IDs of n newly created
   nodes are pairwise distinct and were never handed out before. *)
Theorem ids_unique : forall n used a l a',
  AInv used a -> alloc_n n a = (l, a') ->
  length l = n /\ NoDup l /\ (forall i, In i l -> ~ In i used) /\ AInv (l ++ used) a'
  /\ a_pooling a' = a_pooling a.
Proof. exact alloc_n_spec. Qed.

Theorem release_keeps_invariant : forall n used a,
  AInv used a -> AInv used (release n a) /\ a_pooling (release n a) = a_pooling a.
Proof. exact release_spec. Qed.

(* ---- the cache ingredients (what an integrator discharges eval_caches_sound with) ------------- *)
(* go-corelib LoadingCache (the xpath expression cache, the JS program cache and the node-JSON
   cache are instances): for EVERY capacity (unbounded, n, one) and every content consistent with
   the loader, Get returns the loader's answer and stays consistent. *)
Theorem loading_cache_pure : forall (K V : Type) (keqb : K -> K -> bool),
  (forall a b, keqb a b = true <-> a = b) ->
  forall load k c, LcOK K V load c ->
    fst (lc_get K V keqb load k c) = load k /\ LcOK K V load (snd (lc_get K V keqb load k c)).
Proof. exact lc_get_pure. Qed.

Theorem loading_cache_capacity_irrelevant : forall (K V : Type) (keqb : K -> K -> bool),
  (forall a b, keqb a b = true <-> a = b) ->
  forall load k c c', LcOK K V load c -> LcOK K V load c' ->
    fst (lc_get K V keqb load k c) = fst (lc_get K V keqb load k c').
Proof. exact lc_get_capacity_irrelevant. Qed.

(* idr/query.go:26-47: a compiled expression is a function of its text; dynamic xpaths bypass the
   cache and leave it untouched.  compile = xpath.Compile, any deterministic function. *)
Theorem expr_cache_pure : forall (E : Type) (compile : bytes -> option E) dynamic text c,
  LcOK bytes E compile c ->
  fst (load_xpath_expr compile dynamic text c) = compile text /\
  LcOK bytes E compile (snd (load_xpath_expr compile dynamic text c)) /\
  (dynamic = true -> snd (load_xpath_expr compile dynamic text c) = c).
Proof. exact @expr_cache_pure. Qed.

Theorem program_cache_pure : forall (P : Type) (compile : bytes -> option P) off js c,
  LcOK bytes P compile c ->
  fst (get_program compile off js c) = compile js /\
  LcOK bytes P compile (snd (get_program compile off js c)).
Proof. exact @program_cache_pure. Qed.

(* javascript.go:58-66: under content_stable_per_id (the JSON of the nodes carrying an ID is a
   function of the ID) the node-JSON cache is invisible, on, off, or with any capacity ... *)
Theorem node_json_fresh : forall (content : N -> bytes) off id json c,
  LcOK N bytes (fun k => Some (content k)) c -> content id = json ->
  fst (get_node_json off id json c) = json /\
  LcOK N bytes (fun k => Some (content k)) (snd (get_node_json off id json c)).
Proof. exact node_json_fresh. Qed.

(* ... and visible otherwise: after a call stored j1 under an ID, a call for a node with the
   same ID and content j2 returns j1 with caching on and j2 with caching off (F6). *)
Theorem node_json_refuted :
  exists (id : N) (j1 j2 : bytes) (c : lcache N bytes),
    j1 <> j2 /\
    let c1 := snd (get_node_json false id j1 c) in
    fst (get_node_json false id j2 c1) = j1 /\ fst (get_node_json true id j2 c1) = j2.
Proof. exact node_json_refuted. Qed.

(* F6: the guard is necessary.  The miniature evaluator asked to JSONify the root (an ancestor of
   the streamed records) satisfies every other hypothesis, both hidden states satisfy Inv, and
   the results differ between JS caches on and off. *)
Theorem caches_invisible_refuted :
  exists (h h' : hid tcache) s ctx us,
    Pipeline.Inv tcache tCInv h /\ Pipeline.Inv tcache tCInv h' /\ ~ tguard s /\
    run_env tschema bytes tcache teval (fun v => Some v) true (fun b => b) inner_text h s ctx us <>
    run_env tschema bytes tcache teval (fun v => Some v) true (fun b => b) inner_text h' s ctx us.
Proof.
  exists h_fresh, h_off, OnRoot, t_ctx, [URec (leaf x31); URec (leaf x32)].
  split; [exact Inv_h_fresh|]. split; [exact Inv_h_off|]. split; [discriminate|].
  exact t_root_cache_visible.
Qed.

(* F29 (known finding): the JavaScript VM pool is visible for scripts that create GLOBAL
   BINDINGS (top-level let/const/class/var/function, implicit globals, mutated built-ins):
   execProgram deletes only the call's args from the pooled VM.  The miniature script
   `var c = (typeof c === 'undefined' ? 0 : c) + 1; c` (Proofs/PipelineInst.v geval) meets the
   memo and ID-renaming hypotheses, and the results differ between JS caching on (1,2,3) and off
   (1,1,1).  caches_invisible / caches_invisible_js hold under the F29 guard only: in C20's
   Model/Js.v a script is a function of the globals it can see and cannot write them (excluded
   "by type"; expressing a writing script there would change that model's script type, so the
   refutation is given on the miniature and on the Go code: replays/corpus/C13/f29_*.json). *)
Theorem caches_invisible_refuted_globals :
  (forall s w, fst (geval true gc0 s w) = fst (geval false gc0 s w)) /\
  (forall (f : N -> N) m s w, fst (geval m gc0 s (w_rename f w)) = fst (geval m gc0 s w)) /\
  exists us,
    run_env tschema bytes gcache geval (fun v => Some v) true (fun b => b) inner_text hg_on OnRecord [] us <>
    run_env tschema bytes gcache geval (fun v => Some v) true (fun b => b) inner_text hg_off OnRecord [] us.
Proof.
  exact (conj g_cache_transparent (conj g_id_renaming
           (ex_intro _ [URec (leaf x31); URec (leaf x32); URec (leaf x33)] g_pool_visible))).
Qed.

(* Non-vacuity: the hypotheses are met by a concrete evaluator with an ID-keyed node-JSON cache
   that is consulted and filled (Proofs/PipelineInst.v), and three different hidden states (fresh
   process; warmed-up process with pooled nodes, a sync.Pool schedule, memo off, a filled cache;
   pooling and JS caches off) satisfy Inv. *)
Example c13_hypotheses_satisfiable :
  (forall used used' c, (forall x, In x used -> In x used') -> tCInv used c -> tCInv used' c) /\
  (forall s w, tguard s -> NoDup (w_ids w) -> fst (teval true tc0 s w) = fst (teval false tc0 s w)) /\
  (forall (f : N -> N) m s w, tguard s -> NoDup (w_ids w) ->
     (forall x y, In x (w_ids w) -> In y (w_ids w) -> f x = f y -> x = y) ->
     fst (teval m tc0 s (w_rename f w)) = fst (teval m tc0 s w)) /\
  (forall used c m s w, tCInv used c -> (forall i, In i (w_rec_ids w) -> ~ In i used) -> tguard s ->
     NoDup (w_ids w) ->
     fst (teval m c s w) = fst (teval m tc0 s w) /\ tCInv (w_rec_ids w ++ used) (snd (teval m c s w))) /\
  Pipeline.Inv tcache tCInv h_fresh /\ Pipeline.Inv tcache tCInv h_warm /\ Pipeline.Inv tcache tCInv h_off /\
  tguard OnRecord.
Proof.
  split; [exact t_CInv_mono|]. split; [intros; apply t_cache_transparent|].
  split; [intros; apply t_id_renaming; assumption|]. split; [intros; apply t_caches_sound; assumption|].
  split; [exact Inv_h_fresh|]. split; [exact Inv_h_warm|]. split; [exact Inv_h_off|reflexivity].
Qed.

(* and on that instance the theorem's conclusion is observed by computation as well *)
Example c13_instance_runs_agree :
  t_run h_warm OnRecord t_ctx t_units = t_run h_fresh OnRecord t_ctx t_units /\
  t_run h_off OnRecord t_ctx t_units = t_run h_fresh OnRecord t_ctx t_units.
Proof. split; vm_compute; reflexivity. Qed.

(* Non-vacuity of the C02-instantiated theorems: an engine meeting query_valid (the self axis) and
   two hidden states meeting Inv0 (fresh process; advanced counter, pooled nodes, a sync.Pool
   schedule, memo off). *)
Example c13_c02_hypotheses_satisfiable :
  (forall (root : tree) (x : bytes) (p : path) ps,
     valid root p -> (fun (_ : tree) (_ : bytes) (q : path) => Some [q]) root x p = Some ps ->
     Forall (valid root) ps) /\
  Inv0 (mkHid (mkA 0%N [] true []) true tt) /\
  Inv0 (mkHid (mkA 9%N [5%N; 3%N; 8%N] true [1; 7; 0]) false tt).
Proof.
  split; [|split].
  - intros root x p ps Hv E. inversion E; subst. constructor; [exact Hv|constructor].
  - exists []. unfold AInv; simpl. repeat split; try constructor. intros i [].
  - exists [2%N]. unfold AInv; simpl. split; [|split; [|split]].
    + repeat constructor; simpl; intuition congruence.
    + repeat constructor; simpl; lia.
    + repeat constructor; simpl; lia.
    + intros i [<-|[]]; simpl; intuition congruence.
Qed.

(* ---- the node pool: Model/Pipeline.v's allocator against C12's pointer-level heap model ---------- *)
From OV Require Model.Heap Proofs.HeapRep Proofs.Heap Proofs.PipelineHeap.
From Coq Require Import ZArith.

(* create with New() hands out the ID the pipeline allocator hands out (the counter + 1), and the
   allocator read off the successor heap state is the pipeline allocator's successor state *)
Theorem alloc_refines_create_fresh : forall caching s F acq ty data fs picks,
  HeapRep.Rep caching s F -> PipelineHeap.Nonneg s acq ->
  exists s', Heap.create caching s Heap.Fresh ty data fs = Heap.Ok (s', Heap.next_addr s) /\
    fresh_node (PipelineHeap.abs_alloc caching s picks) picks
      = (PipelineHeap.idN (Heap.heap s') (Heap.next_addr s), PipelineHeap.abs_alloc caching s' picks) /\
    Heap.id_of (Heap.heap s') (Heap.next_addr s) = (Heap.next_id s + 1)%Z /\
    PipelineHeap.Nonneg s' (Heap.id_of (Heap.heap s') (Heap.next_addr s) :: acq).
Proof. exact PipelineHeap.create_fresh_sim. Qed.

(* create taking the k-th pooled node (any k): the same, the ID is the one the node got when it
   was recycled *)
Theorem alloc_refines_create_pool : forall s F acq k a ty data fs picks,
  HeapRep.Rep true s F -> PipelineHeap.Nonneg s acq -> nth_error (Heap.pool s) k = Some a ->
  exists s', Heap.create true s (Heap.FromPool a) ty data fs = Heap.Ok (s', a) /\
    create_node (PipelineHeap.abs_alloc true s (k :: picks))
      = (PipelineHeap.idN (Heap.heap s') a, PipelineHeap.abs_alloc true s' picks) /\
    Heap.id_of (Heap.heap s') a = Heap.id_of (Heap.heap s) a /\
    PipelineHeap.Nonneg s' (Heap.id_of (Heap.heap s') a :: acq).
Proof. exact PipelineHeap.create_pool_sim. Qed.

(* RemoveAndReleaseTree of a live node (with its subtree of k nodes) is release k *)
Theorem alloc_refines_remove : forall caching s F acq n picks,
  HeapRep.Rep caching s F -> PipelineHeap.Nonneg s acq -> Heap.pre_b caching s F (Heap.ORemove n) = true ->
  exists s' k, Heap.remove_and_release caching (Heap.fuel_of s) s n = Heap.Ok s' /\
    PipelineHeap.abs_alloc caching s' picks = release k (PipelineHeap.abs_alloc caching s picks) /\
    PipelineHeap.Nonneg s' acq.
Proof. exact PipelineHeap.remove_sim. Qed.

(* in every state reachable by ANY history of API-respecting operations (any pool choices,
   pooling on or off): all IDs are non-negative and the allocator invariant holds, with
   used = the IDs handed out so far *)
Theorem heap_reachable_nonneg : forall caching s F acq,
  Heap.reachable caching s F acq -> PipelineHeap.Nonneg s acq.
Proof. exact PipelineHeap.reachable_nonneg. Qed.

Theorem heap_reachable_AInv : forall caching s F acq picks,
  Heap.reachable caching s F acq -> AInv (map Z.to_N acq) (PipelineHeap.abs_alloc caching s picks).
Proof. exact PipelineHeap.reachable_AInv. Qed.

(* ... hence caches_invisible with NO hypothesis on the hidden state and NO evaluator hypothesis:
   C02 evaluator, C12 heap machine *)
Section C13_Heap_C02.
  Variable query : tree -> bytes -> path -> option (list path).
  Variable ext : bytes -> option bytes.
  Variable fsigs : bytes -> option fsig.
  Variable fcall : tree -> bytes -> path -> list value -> cfres.
  Variable pcall : tree -> bytes -> path -> cfres.
  Hypothesis query_valid : forall root x p ps,
    valid root p -> query root x p = Some ps -> Forall (valid root) ps.
  Variable marshal : value -> option bytes.
  Variable marshal_err_cont : bool.
  Variable H : bytes -> bytes.
  Variable canon : tree -> bytes.
  Notation run_env_c02 :=
    (run_env vdecl value unit (eval_c02 query ext fsigs fcall pcall) marshal marshal_err_cont H canon).

  Theorem caches_invisible_c02_heap :
    forall caching s F acq picks memo caching' s' F' acq' picks' memo' d ctx us,
    Heap.reachable caching s F acq -> Heap.reachable caching' s' F' acq' ->
    run_env_c02 (mkHid (PipelineHeap.abs_alloc caching s picks) memo tt) d ctx us =
    run_env_c02 (mkHid (PipelineHeap.abs_alloc caching' s' picks') memo' tt) d ctx us.
  Proof.
    exact (PipelineHeap.caches_invisible_c02_heap query ext fsigs fcall pcall query_valid marshal marshal_err_cont H canon).
  Qed.
End C13_Heap_C02.

(* non-vacuity: the initial heap state is reachable, and its abstraction is the fresh allocator *)
Example c13_heap_nonvacuous :
  Heap.reachable true Heap.init [] [] /\
  PipelineHeap.abs_alloc true Heap.init [2; 0] = mkA 0%N [] true [2; 0].
Proof. split; [constructor|reflexivity]. Qed.

(* ---- with JavaScript: evaluator-side caches = C20's JavaScript layer state --------------------------- *)
(* Proofs/PipelineJs.v: C := Model/Js.v jsstate (disableCaching, VM pool, program cache, node-JSON
   cache: any capacities and contents); eval_js runs the record's JavaScript calls through the
   real stateful layer (Js.run), tabulates the answers and evaluates the record with the C02
   evaluator whose oracle answers javascript / javascript_with_context from that table.
   eval_caches_sound / CInv_mono / eval_cache_transparent / eval_id_renaming are DISCHARGED from
   C20 (js_call_spec: program cache, node-JSON cache under the guard, VM isolation) and C02
   (caches_invisible_eval, eval_id_renaming, and the oracle-extensionality of the evaluator).
   Remaining modelling variables: which JavaScript calls a record's evaluation issues (jscalls),
   how an invocation maps to a call (js_of, matches) and an outcome to a Go value (cf_of). *)
From OV Require Model.Js Proofs.Js Proofs.JsRefute Proofs.PipelineJs.
Module MJ := OV.Model.Js.
Module PJ := OV.Proofs.Js.
Module PJS := OV.Proofs.PipelineJs.

Section C13_JS.
  Variable r : MJ.rt.
  Variable compile : N -> option MJ.script.
  Hypothesis r_wf : PJ.rt_wf r.
  Variable query : tree -> bytes -> path -> option (list path).
  Variable ext : bytes -> option bytes.
  Variable fsigs : bytes -> option fsig.
  Variable fcall0 : tree -> bytes -> path -> list value -> cfres.
  Variable pcall : tree -> bytes -> path -> cfres.
  Hypothesis query_valid : forall root x p ps,
    valid root p -> query root x p = Some ps -> Forall (valid root) ps.
  Variable js_of : tree -> bytes -> path -> list value -> option (MJ.call * MJ.sched).
  Variable matches : MJ.call * MJ.sched -> MJ.call * MJ.sched -> bool.
  Hypothesis matches_spec : forall a b, matches a b = true ->
    PJ.call_spec r compile (fst a) (snd a) = PJ.call_spec r compile (fst b) (snd b).
  Variable cf_of : MJ.outcome * option bytes -> cfres.
  Variable jscalls : bool -> vdecl -> world -> list (MJ.call * MJ.sched).
  (* the F6 guard at pipeline level *)
  Variable js_guard : vdecl -> Prop.
  Hypothesis jscalls_wf : forall m s w, js_guard s -> NoDup (w_ids w) ->
    forall c sc, In (c, sc) (jscalls m s w) ->
      PJ.call_wf c sc /\ (forall id j, MJ.c_node c = Some (id, j) -> In id (w_rec_ids w)).
  Hypothesis jscalls_stable : forall m s w, js_guard s -> NoDup (w_ids w) ->
    PJ.content_stable_per_id (map fst (jscalls m s w)).
  Variable progcap nodecap : N.
  Variable marshal : value -> option bytes.
  Variable marshal_err_cont : bool.
  Variable H : bytes -> bytes.
  Variable canon : tree -> bytes.
  Notation eval_js := (PJS.eval_js r compile query ext fsigs fcall0 pcall js_of matches cf_of jscalls).
  Notation run_env_js := (run_env vdecl value MJ.jsstate eval_js marshal marshal_err_cont H canon).
  Notation InvJ := (PJS.InvJ r compile).

  (* all hidden states: node pool / ID counter / sync.Pool schedule any, transform memo on or off,
     JavaScript caches on or off, any capacities, any contents consistent with the invariant, VM
     pool any contents equal to new runtimes; all schemas inside the guard *)
  Theorem caches_invisible_js : forall h h' s ctx us,
    InvJ h -> InvJ h' -> js_guard s -> run_env_js h s ctx us = run_env_js h' s ctx us.
  Proof.
    exact (PJS.caches_invisible_js r compile r_wf query ext fsigs fcall0 pcall query_valid js_of matches
             matches_spec cf_of jscalls js_guard jscalls_wf jscalls_stable progcap nodecap
             marshal marshal_err_cont H canon).
  Qed.
End C13_JS.

(* a process that has not run anything yet satisfies InvJ whatever the switches and capacities *)
Theorem js_fresh_process_inv : forall r compile pooling picks memo nocache pc nc,
  PJS.InvJ r compile (mkHid (mkA 0%N [] pooling picks) memo (MJ.st_init nocache pc nc)).
Proof. exact PJS.InvJ_fresh. Qed.

(* non-vacuity: a runtime table meeting rt_wf, and a jscalls that really issues a
   javascript_with_context call on the record node (its ID, its text as JSON) per record *)
Definition tjs (_ : bool) (_ : vdecl) (w : world) : list (MJ.call * MJ.sched) :=
  match w_rec_ids w with
  | i :: _ => [(MJ.mkCall (Some (i, inner_text (w_rec w))) 1%N [] false, MJ.mkSched MJ.ChFresh [MJ.NODE] [MJ.NODE])]
  | [] => []
  end.

Example c13_js_hypotheses_satisfiable :
  PJ.rt_wf JsRefute.r0 /\
  (forall m s w, True -> NoDup (w_ids w) -> forall c sc, In (c, sc) (tjs m s w) ->
     PJ.call_wf c sc /\ (forall id j, MJ.c_node c = Some (id, j) -> In id (w_rec_ids w))) /\
  (forall m s w, True -> NoDup (w_ids w) -> PJ.content_stable_per_id (map fst (tjs m s w))).
Proof.
  split; [exact JsRefute.r0_wf|split].
  - intros m s w _ _ c sc Hin. unfold tjs in Hin. destruct (w_rec_ids w) as [|i l] eqn:E; [destruct Hin|].
    destruct Hin as [Hin|[]]. inversion Hin; subst. split.
    + apply PJ.call_wf_b_sound. vm_compute. reflexivity.
    + intros id j Hc. simpl in Hc. inversion Hc; subst. now left.
  - intros m s w _ _ c1 c2 id b1 b2 H1 H2 E1 E2. unfold tjs in *.
    destruct (w_rec_ids w) as [|i l]; [destruct H1|].
    destruct H1 as [<-|[]]. destruct H2 as [<-|[]]. simpl in *. congruence.
Qed.

(* the C12 heap machine in ANY reachable state + empty JavaScript caches (on or off, any
   capacities) satisfies the invariant of caches_invisible_js *)
Theorem heap_reachable_InvJ : forall r compile caching s F acq picks memo nocache pc nc,
  Heap.reachable caching s F acq ->
  PJS.InvJ r compile (mkHid (PipelineHeap.abs_alloc caching s picks) memo (MJ.st_init nocache pc nc)).
Proof. exact PipelineHeap.reachable_InvJ. Qed.
