(* C13 Caches and pools are semantically invisible.  Statements only; proofs in
   Proofs/Pipeline*.v.  The hidden process state hid = (node ID counter, node pool contents,
   pooling switch, schedule of sync.Pool choices; transform memo switch; evaluator-side caches)
   is an explicit argument of the pipeline model; the theorems quantify over ALL pairs of hidden
   states satisfying the invariant, all schemas inside the guard, all envelopes and record streams. *)
From Coq Require Import List NArith Bool.
From Coq.Strings Require Import Byte.
Import ListNotations.
From OV Require Import Base.Bytes Base.Tree Model.Pipeline Proofs.Pipeline Proofs.PipelineInst Proofs.PipelineCanon.

Section C13.
  Variable schema V C : Type.
  Variable c0 : C.                                  (* all evaluator-side caches empty *)
  Variable eval : bool -> C -> schema -> world -> option V * C.   (* ParseNode: memo switch, caches *)
  Variable marshal : V -> option bytes.
  Variable marshal_err_cont : bool.
  Variable H : bytes -> bytes.
  Variable canon : tree -> bytes.
  Variable CInv : list N -> C -> Prop.              (* cache invariant relative to the IDs handed out so far *)
  Variable content_stable_per_id : schema -> Prop.  (* guard of DESIGN section 6 F6 *)
  (* what the pipeline level needs from the evaluator (C02), the caches (C13 ingredients
     expr_cache_pure / js_isolation / node_json_fresh, C20) - to be instantiated by the integrator *)
  Hypothesis CInv_mono : forall used used' c,
    (forall x, In x used -> In x used') -> CInv used c -> CInv used' c.
  Hypothesis eval_cache_transparent : forall c s w,
    fst (eval true c s w) = fst (eval false c s w).
  Hypothesis eval_id_renaming : forall (f : N -> N) m s w,
    (forall x y, In x (w_ids w) -> In y (w_ids w) -> f x = f y -> x = y) ->
    fst (eval m c0 s (w_rename f w)) = fst (eval m c0 s w).
  Hypothesis eval_caches_sound : forall used c m s w,
    CInv used c -> (forall i, In i (w_rec_ids w) -> ~ In i used) -> content_stable_per_id s ->
    fst (eval m c s w) = fst (eval m c0 s w) /\ CInv (w_rec_ids w ++ used) (snd (eval m c s w)).
  Notation run_env := (run_env schema V C eval marshal marshal_err_cont H canon).
  Notation Inv := (Inv C CInv).

  Variable input : Type.
  Variable reader : input -> list tree * list runit.
  Notation run := (run schema V C eval marshal marshal_err_cont H canon input reader).

  (* The full statement.  Without the guard it is FALSE of the faithful model (and of the code):
     caches_invisible_refuted below, DESIGN section 6 F6. *)
  Theorem caches_invisible : forall h h' s i,
    Inv h -> Inv h' -> content_stable_per_id s -> run h s i = run h' s i.
  Proof. exact (caches_invisible schema V C c0 eval marshal marshal_err_cont H canon CInv content_stable_per_id CInv_mono eval_cache_transparent eval_id_renaming eval_caches_sound input reader). Qed.

  (* the same over an explicit envelope + unit list *)
  Theorem caches_invisible_env : forall h h' s ctx us,
    Inv h -> Inv h' -> content_stable_per_id s -> run_env h s ctx us = run_env h' s ctx us.
  Proof. exact (caches_invisible_env schema V C c0 eval marshal marshal_err_cont H canon CInv content_stable_per_id CInv_mono eval_cache_transparent eval_id_renaming eval_caches_sound). Qed.

  (* Inv is an invariant of process histories: a transform leaves a state satisfying it *)
  Theorem inv_preserved : forall h s ctx us,
    Inv h -> content_stable_per_id s ->
    Inv (after schema V C eval marshal marshal_err_cont H canon h s ctx us).
  Proof. exact (Inv_after schema V C c0 eval marshal marshal_err_cont H canon CInv content_stable_per_id CInv_mono eval_cache_transparent eval_id_renaming eval_caches_sound). Qed.
End C13.

(* Node pool facts the proof rests on (the pipeline-level counterpart of C12's fresh_blank /
   pool_disjoint_nodup / ids_unique), proved here for the allocator model of Model/Pipeline.v:
   with or without pooling, for every schedule of sync.Pool choices, the IDs of n newly created
   nodes are pairwise distinct and were never handed out before. *)
Theorem ids_unique : forall n used a l a',
  AInv used a -> alloc_n n a = (l, a') ->
  length l = n /\ NoDup l /\ (forall i, In i l -> ~ In i used) /\ AInv (l ++ used) a'
  /\ a_pooling a' = a_pooling a.
Proof. exact alloc_n_spec. Qed.

Theorem release_keeps_invariant : forall n used a,
  AInv used a -> AInv used (release n a) /\ a_pooling (release n a) = a_pooling a.
Proof. exact release_spec. Qed.

(* F6: the guard is necessary.  The miniature evaluator asked to JSONify the root (an ancestor of
   the streamed records) satisfies every other hypothesis, both hidden states satisfy Inv, and
   the results differ between JS caches on and off. *)
Theorem caches_invisible_refuted :
  exists (h h' : hid tcache) s ctx us,
    Pipeline.Inv tcache tCInv h /\ Pipeline.Inv tcache tCInv h' /\ ~ tguard s /\
    run_env tschema bytes tcache teval (fun v => Some v) true (fun b => b) inner_text h s ctx us <>
    run_env tschema bytes tcache teval (fun v => Some v) true (fun b => b) inner_text h' s ctx us.
Proof.
  exists h_fresh, h_off, OnRoot, t_ctx, [URec (leaf x31); URec (leaf x32)].
  split; [exact Inv_h_fresh|]. split; [exact Inv_h_off|]. split; [discriminate|].
  exact t_root_cache_visible.
Qed.

(* Non-vacuity: the hypotheses are met by a concrete evaluator with an ID-keyed node-JSON cache
   that is consulted and filled (Proofs/PipelineInst.v), and three different hidden states (fresh
   process; warmed-up process with pooled nodes, a sync.Pool schedule, memo off, a filled cache;
   pooling and JS caches off) satisfy Inv. *)
Example c13_hypotheses_satisfiable :
  (forall used used' c, (forall x, In x used -> In x used') -> tCInv used c -> tCInv used' c) /\
  (forall c s w, fst (teval true c s w) = fst (teval false c s w)) /\
  (forall (f : N -> N) m s w,
     (forall x y, In x (w_ids w) -> In y (w_ids w) -> f x = f y -> x = y) ->
     fst (teval m tc0 s (w_rename f w)) = fst (teval m tc0 s w)) /\
  (forall used c m s w, tCInv used c -> (forall i, In i (w_rec_ids w) -> ~ In i used) -> tguard s ->
     fst (teval m c s w) = fst (teval m tc0 s w) /\ tCInv (w_rec_ids w ++ used) (snd (teval m c s w))) /\
  Pipeline.Inv tcache tCInv h_fresh /\ Pipeline.Inv tcache tCInv h_warm /\ Pipeline.Inv tcache tCInv h_off /\
  tguard OnRecord.
Proof.
  split; [exact t_CInv_mono|]. split; [exact t_cache_transparent|].
  split; [exact t_id_renaming|]. split; [exact t_caches_sound|].
  split; [exact Inv_h_fresh|]. split; [exact Inv_h_warm|]. split; [exact Inv_h_off|reflexivity].
Qed.

(* and on that instance the theorem's conclusion is observed by computation as well *)
Example c13_instance_runs_agree :
  t_run h_warm OnRecord t_ctx t_units = t_run h_fresh OnRecord t_ctx t_units /\
  t_run h_off OnRecord t_ctx t_units = t_run h_fresh OnRecord t_ctx t_units.
Proof. split; vm_compute; reflexivity. Qed.
