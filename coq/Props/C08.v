From Coq Require Import List NArith Bool.
Import ListNotations.
From OV Require Import Base.Bytes Base.Tree Model.Json Model.Xml.
Theorem stub_partial : True.
Proof. exact I. Qed.
