(* C08 JSON and XML documents are represented faithfully in the node tree.
   Statements only; proofs in Proofs/Json.v, Proofs/Xml.v, Proofs/XmlScope.v.

   JSON: fmtf / parsef stand for strconv.FormatFloat(v,'f',-1,64) / strconv.ParseFloat (external
   code: Section variables); numbers are float64 bit patterns. *)
From Coq Require Import List NArith ZArith Bool String.
From Coq.Strings Require Import Byte.
Import ListNotations.
From OV Require Import Base.Bytes Base.Tree Model.Json Model.Xml Proofs.Json Proofs.Xml Proofs.XmlScope Proofs.XmlLastWins Proofs.JsonXmlFacts Gen.C08Facts.

Section C08Json.
  Variable fmtf : N -> bytes.
  Variable parsef : bytes -> N.

  (* For EVERY value v: the reader, run on the token stream encoding/json reports for v, returns
     on its first Read (target ".") the document node carrying exactly the tree jtree v - root
     flags, property nodes, anonymous array element nodes, typed value text nodes - having
     consumed exactly the tokens of v. *)
  Theorem json_tree_built : forall v,
    jbuild fmtf (jtokens v) = Some (jtree fmtf v).
  Proof. exact (jbuild_jtree fmtf). Qed.

  (* For EVERY value v with pairwise distinct object keys at every level whose numbers survive
     strconv (ParseFloat (FormatFloat k) = k): converting the built tree back with
     J2NodeToInterface(n, true) gives v again - same keys, array order, strings, booleans,
     nulls, numbers; including empty containers, the key "" (F5) and any nesting. *)
  Theorem json_roundtrip : forall v,
    jwf v = true -> jnums (fun k => parsef (fmtf k) = k) v ->
    option_map (j2iface parsef true) (jbuild fmtf (jtokens v)) = Some v.
  Proof. exact (json_roundtrip fmtf parsef). Qed.

  (* For EVERY value v, WITHOUT the hypothesis on keys (numbers surviving strconv): the converter
     returns jfold v - members of equal name are folded, at every level, into one array at the
     position of the first occurrence, in member order; this is what the code does with
     duplicate keys (encoding/json keeps the last member instead: such values are outside the
     property).  json_fold_identity: for pairwise distinct keys jfold is the identity, which
     gives json_roundtrip again. *)
  Theorem json_convert_fold : forall v,
    jnums (fun k => parsef (fmtf k) = k) v ->
    option_map (j2iface parsef true) (jbuild fmtf (jtokens v)) = Some (jfold v).
  Proof. exact (json_convert_fold fmtf parsef). Qed.

  (* null, [], {}, "", true, false come back from copy unchanged - no hypothesis at all *)
  Theorem copy_empty_values : forall v,
    In v [JNull; JArr []; JObj []; JStr []; JBool true; JBool false] ->
    option_map (copy_func parsef) (jbuild fmtf (jtokens v)) = Some v.
  Proof. exact (copy_empty_values fmtf parsef). Qed.

  (* ... hence the copy custom function reproduces a JSON record as an equal JSON value. *)
  Corollary copy_roundtrip : forall v,
    jwf v = true -> jnums (fun k => parsef (fmtf k) = k) v ->
    option_map (copy_func parsef) (jbuild fmtf (jtokens v)) = Some v.
  Proof. exact (copy_roundtrip fmtf parsef). Qed.
End C08Json.

Theorem json_fold_identity : forall v, jwf v = true -> jfold v = v.
Proof. exact jfold_wf. Qed.

(* XML, token by token, for EVERY reader state with a current node:
   - a CharData token (text, entity-decoded text, one CDATA section, also an EMPTY one) adds exactly
     one TextNode child holding exactly its bytes and changes nothing else;
   - consecutive CharData tokens stay separate nodes in order (never merged, never dropped);
   - comments, processing instructions and directives change nothing; an EndElement creates no node;
   - an accepted StartElement pushes one element whose children are exactly one AttributeNode per
     attribute in token order, each with one text child holding the value (also the empty value). *)
Theorem xml_chardata_token : forall top below m st s,
  xstep (mkXS (top :: below) m st) (XTChar s) =
  (mkXS (xf_add top (T TextNode s (FXml [] []) []) :: below) m st, None).
Proof. exact xstep_chardata. Qed.

Theorem xml_consecutive_chardata : forall ss top below m st,
  xfeed (mkXS (top :: below) m st) (map XTChar ss) =
  mkXS (mkXF (xf_ty top) (xf_data top) (xf_pfx top) (xf_uri top)
             (rev (map (fun s => T TextNode s (FXml [] []) []) ss) ++ xf_kids top) :: below) m st.
Proof. exact xfeed_chardata. Qed.

Theorem xml_skipped_tokens : forall s, xstep s XTOther = (s, None).
Proof. exact xstep_other. Qed.

Theorem xml_end_element_no_node : forall s sp l s' o,
  xstep s (XTEnd sp l) = (s', o) -> List.length (xs_stack s') <= List.length (xs_stack s).
Proof. exact xstep_end_no_new_node. Qed.

Theorem xml_start_element_attributes : forall top below m st sp loc attrs s',
  xstep (mkXS (top :: below) m st) (XTStart sp loc attrs) = (s', None) ->
  exists p u l,
    xs_stack s' = mkXF ElementNode loc p u (rev l) :: top :: below /\
    node_space (FXml p u) = sp /\ Forall2 attr_node_of attrs l /\ lead_attrs l = attrs.
Proof. exact xstep_start_element. Qed.

(* One reader per document: a run over a sequence of documents is the map of the single-document
   run - nothing of an earlier document (a failed one included) reaches a later one.  Assumes
   that the only process-wide state, the node pool, hands out nodes indistinguishable from new
   ones (C12); the good,bad,good sequences of the harness check that on the implementation. *)
Theorem xml_docs_independent : forall docs i,
  nth_error (xbuild_all docs) i = option_map xbuild (nth_error docs i).
Proof. exact xml_docs_independent. Qed.

(* The constants and tables the model transcribes by hand are the ones extracted from /repo on
   this run (coq/Gen/C08Facts.v): JSONType flags, addTextChild's table (numbers are written with
   strconv.FormatFloat(v,'f',-1,64) and read back with ParseFloat(_,64)), the JSON root node, the
   xml.Decoder the XML reader uses (strict encoding/xml decoder, CharsetReader =
   x/net/html/charset.NewReaderLabel, nothing else changed) and its initial namespace table. *)
Theorem c08_extracted_facts :
  json_flags =
    [("JSONRoot"%string, JSONRoot); ("JSONObj"%string, JSONObj); ("JSONArr"%string, JSONArr);
     ("JSONProp"%string, JSONProp); ("JSONValueStr"%string, JSONValueStr);
     ("JSONValueNum"%string, JSONValueNum); ("JSONValueBool"%string, JSONValueBool);
     ("JSONValueNull"%string, JSONValueNull); ("jsonTypeEnd"%string, 256%N)]
  /\ text_child_table =
    [(TkBool, FmtBool, "JSONValueBool"%string); (TkDefault, FmtString, "JSONValueStr"%string);
     (TkFloat64, FmtFloat "f"%string (-1)%Z 64%N, "JSONValueNum"%string);
     (TkNil, FmtEmpty, "JSONValueNull"%string)]
  /\ parse_float_bits = 64%N
  /\ map (fun f => (jf_ty f, jf_data f, jf_flags f, jf_kids f)) (js_stack jinit)
     = [(DocumentNode, [], gen_flag json_root_flag, [])]
  /\ xml_decoder_ctor = "encoding/xml.NewDecoder"%string
  /\ xml_decoder_settings = [("CharsetReader"%string, "golang.org/x/net/html/charset.NewReaderLabel"%string)]
  /\ xml_init_space2prefix = xs_map xinit.
Proof.
  split; [exact json_flags_extracted|]. split; [exact (proj1 json_text_child_extracted)|].
  split; [exact (proj1 (proj2 json_text_child_extracted))|]. split; [exact json_root_extracted|].
  split; [exact (proj1 xml_decoder_extracted)|]. split; [exact (proj1 (proj2 xml_decoder_extracted))|].
  exact (proj1 (proj2 (proj2 xml_decoder_extracted))).
Qed.

(* XML, faithfulness: for EVERY token list (any names, namespaces, nesting; well-formed or not)
   on which the first Read with target "." returns a node: the token view of the document tree
   (tree_evs: elements in order with local name and Name.Space, attributes as LEADING children
   in token order with their values, character data) is exactly the sequence of tokens consumed,
   and the returned node is a child of that document node. *)
Theorem xml_faithful : forall toks e d s' rest,
  xread xinit toks = (XRNode e d, s', rest) ->
  exists consumed, toks = consumed ++ rest /\ tree_evs d = tok_evs consumed /\ In e (t_kids d).
Proof. exact xml_faithful_tokens. Qed.

(* XML, several readers alive at once: for EVERY interleaving of the tokens of two readers, each
   reader ends in the state it reaches alone - in the model the namespace table is per-reader
   state.  (Trivial in the model; the correspondence harness checks the implementation against
   it: every record a reader returns while other readers are alive equals the one it returns
   alone.) *)
Theorem xml_readers_independent : forall sched sa sb,
  fold_left xstep2 sched (sa, sb) =
  (xfeed sa (map snd (filter (fun ev => fst ev) sched)),
   xfeed sb (map snd (filter (fun ev => negb (fst ev)) sched))).
Proof. exact readers_independent. Qed.

(* XML, prefixes: for EVERY document that is namespace-well-formed (ns_wf) and on which the
   reader's document-wide last-declaration-wins URI->prefix map holds, at every element and
   prefixed attribute, the prefix written there (lastwins_ok - a decidable predicate on the
   document; its complement is exactly the known class F11): the first Read returns the document
   element, and the tree is the reference DOM xdom_doc - every element and attribute node carries
   the prefix WRITTEN in the document and the URI that prefix is bound to in scope at that node.
   Documents that re-bind a URI to a new prefix in an inner or later scope and use the new prefix
   from then on are covered. *)
Theorem xml_prefix_in_scope : forall d,
  ns_wf d = true -> lastwins_ok d = true -> has_elem d = true ->
  exists e, xbuild (xtokens d) = XRNode e (xdom_doc d) /\ In e (t_kids (xdom_doc d)).
Proof. exact xml_dom_built_lw. Qed.

(* The same conclusion under the simpler, stronger guard uri_single_prefix: no URI is bound to
   two different prefixes anywhere in the document. *)
Theorem xml_prefix_in_scope_single : forall d,
  ns_wf d = true -> uri_single_prefix d = true -> has_elem d = true ->
  exists e, xbuild (xtokens d) = XRNode e (xdom_doc d) /\ In e (t_kids (xdom_doc d)).
Proof. exact xml_dom_built. Qed.

(* F11: outside lastwins_ok the statement is false.
   <r xmlns:a="u"><x xmlns:b="u">1</x><a:y>2</a:y></r> : the node for <a:y> gets the prefix b. *)
Definition f11_doc : xdoc :=
  [XElem [] [x72] [mkXA b_xmlns [x61] [x75]]
     [XElem [] [x78] [mkXA b_xmlns [x62] [x75]] [XText [x31]];
      XElem [x61] [x79] [] [XText [x32]]]].

Theorem xml_prefix_refuted :
  exists d, ns_wf d = true /\ lastwins_ok d = false /\ uri_single_prefix d = false /\
    exists e t, xbuild (xtokens d) = XRNode e t /\ tree_eqb t (xdom_doc d) = false /\
      In (T ElementNode [x79] (FXml [x62] [x75]) [T TextNode [x32] (FXml [] []) []]) (t_kids e).
Proof. exact xml_prefix_refuted. Qed.

(* ---- Examples: hypotheses are satisfiable by non-trivial instances; regressions --------------- *)
Definition ex_tab : ftab := [(4611686018427387904%N, [x32]); (4609434218613702656%N, [x31; x2e; x35])].

(* {"b":{"":{"x":2}},"":[[],{},1.5,null,true,"s"]} : nesting, "" keys, empty containers *)
Definition ex_val : jvalue :=
  JObj [([x62], JObj [([], JObj [([x78], JNum 4611686018427387904)])]);
        ([], JArr [JArr []; JObj []; JNum 4609434218613702656; JNull; JBool true; JStr [x73]])].

Example json_roundtrip_nonvacuous :
  jwf ex_val = true /\ jnums (fun k => tab_parse ex_tab (tab_fmt ex_tab k) = k) ex_val /\
  option_map (j2iface (tab_parse ex_tab) true) (jbuild (tab_fmt ex_tab) (jtokens ex_val)) = Some ex_val.
Proof. vm_compute. repeat split. Qed.

(* F5 regression: {"b":{"":{"x":2}}}.  With the pre-repair isChildArray (inference only unless
   JSONArr) the inner object comes back as a one-element array; the repaired code returns it. *)
Definition f5_val : jvalue := JObj [([x62], JObj [([], JObj [([x78], JNum 4611686018427387904)])])].
Example json_empty_key_old_refuted :
  option_map (j2iface_old (tab_parse ex_tab) true) (jbuild (tab_fmt ex_tab) (jtokens f5_val))
  = Some (JObj [([x62], JArr [JObj [([x78], JNum 4611686018427387904)]])])
  /\ option_map (j2iface (tab_parse ex_tab) true) (jbuild (tab_fmt ex_tab) (jtokens f5_val)) = Some f5_val.
Proof. vm_compute. split; reflexivity. Qed.

(* The hypothesis jwf is needed: {"a":2,"a":2} (duplicate key) is folded into {"a":[2,2]},
   whereas encoding/json keeps the last member.  (Replayed on the Go code: see the report.) *)
Example json_duplicate_keys_folded :
  let two := JNum 4611686018427387904 in
  jwf (JObj [([x61], two); ([x61], two)]) = false /\
  option_map (j2iface (tab_parse ex_tab) true)
    (jbuild (tab_fmt ex_tab) (jtokens (JObj [([x61], two); ([x61], two)])))
  = Some (JObj [([x61], JArr [two; two])]).
Proof. vm_compute. split; reflexivity. Qed.

(* <p:r xmlns:p="u" xmlns="d" k="v" p:k="w"><x/>t<p:y xmlns:p="u2"/></p:r> : default and
   prefixed namespaces, a re-declared prefix, attributes, mixed content - inside both guards *)
Definition ex_doc : xdoc :=
  [XSkip; XText [x0a];
   XElem [x70] [x72] [mkXA b_xmlns [x70] [x75]; mkXA [] b_xmlns [x64]; mkXA [] [x6b] [x76]; mkXA [x70] [x6b] [x77]]
     [XElem [] [x78] [] []; XText [x74]; XSkip; XElem [x70] [x79] [mkXA b_xmlns [x70] [x75; x32]] []];
   XText [x0a]].
Example xml_prefix_in_scope_nonvacuous :
  ns_wf ex_doc = true /\ lastwins_ok ex_doc = true /\ uri_single_prefix ex_doc = true /\ has_elem ex_doc = true /\
  match xread xinit (xtokens ex_doc) with
  | (XRNode e d, _, rest) => tree_eqb d (xdom_doc ex_doc) = true /\ rest = [XTChar [x0a]]
  | _ => False
  end.
Proof. vm_compute. repeat split. Qed.

(* <lib:library xmlns:lib="urn:b"><bk:book xmlns:bk="urn:b" bk:id="7"/></lib:library> : the URI
   is legitimately re-bound in an inner scope; outside uri_single_prefix, inside lastwins_ok *)
Definition rebind_doc : xdoc :=
  [XElem [x6c; x69; x62] [x6c; x69; x62; x72; x61; x72; x79] [mkXA b_xmlns [x6c; x69; x62] [x75; x72; x6e; x3a; x62]]
     [XElem [x62; x6b] [x62; x6f; x6f; x6b]
        [mkXA b_xmlns [x62; x6b] [x75; x72; x6e; x3a; x62]; mkXA [x62; x6b] [x69; x64] [x37]] []]].
Example xml_rebind_inside_lastwins :
  ns_wf rebind_doc = true /\ lastwins_ok rebind_doc = true /\ uri_single_prefix rebind_doc = false /\
  match xread xinit (xtokens rebind_doc) with
  | (XRNode e d, _, _) => tree_eqb d (xdom_doc rebind_doc) = true
  | _ => False
  end.
Proof. vm_compute. repeat split. Qed.
