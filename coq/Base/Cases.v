(* Correspondence plumbing: the harness writes a list of cases (inputs AND the outputs the Go
   implementation produced); [mismatches chk 0 cases] is the list of case indices on which the
   executable model disagrees.  Evaluated with vm_compute by coqc; [] means agreement. *)
From Coq Require Import List NArith Bool.
Import ListNotations.

Fixpoint mismatches {A} (chk : A -> bool) (i : N) (l : list A) : list N :=
  match l with
  | [] => []
  | x :: r => if chk x then mismatches chk (N.succ i) r else i :: mismatches chk (N.succ i) r
  end.

Definition opt_eqb {A} (eqb : A -> A -> bool) (a b : option A) : bool :=
  match a, b with
  | None, None => true
  | Some x, Some y => eqb x y
  | _, _ => false
  end.

Fixpoint list_eqb {A} (eqb : A -> A -> bool) (a b : list A) : bool :=
  match a, b with
  | [], [] => true
  | x :: a', y :: b' => andb (eqb x y) (list_eqb eqb a' b')
  | _, _ => false
  end.

Lemma list_eqb_eq {A} (eqb : A -> A -> bool) :
  (forall x y, eqb x y = true <-> x = y) ->
  forall a b, list_eqb eqb a b = true <-> a = b.
Proof.
  intros He a; induction a as [|x a IH]; intros [|y b]; simpl; split; intro H;
    try reflexivity; try discriminate.
  - apply andb_prop in H as [H1 H2]. apply He in H1. apply IH in H2. congruence.
  - inversion H; subst. apply andb_true_intro; split; [apply He|apply IH]; reflexivity.
Qed.
