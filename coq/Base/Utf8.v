(* UTF-8 as Go's unicode/utf8 implements it: DecodeRune (invalid or short sequences decode to
   (RuneError, 1); empty input to (RuneError, 0)), EncodeRune (surrogates and out-of-range
   values encode as U+FFFD), and the rune sequence of a byte string ([]rune(s) / range s). *)
From Coq Require Import List NArith Bool.
From Coq.Strings Require Import Byte.
Import ListNotations.
From OV Require Import Base.Bytes.
Local Open Scope N_scope.

Definition rune := N.
Definition RuneError : rune := 65533.   (* U+FFFD *)
Definition MaxRune : rune := 1114111.   (* U+10FFFF *)

Definition in_range (lo hi : N) (b : byte) : bool := (lo <=? b2n b) && (b2n b <=? hi).
Definition low6 (b : byte) : N := N.land (b2n b) 63.

Definition decode_rune (s : bytes) : rune * nat :=
  match s with
  | [] => (RuneError, 0%nat)
  | b0 :: r =>
      let x := b2n b0 in
      if x <? 128 then (x, 1%nat)
      else if x <? 194 then (RuneError, 1%nat)
      else if x <? 224 then
        match r with
        | b1 :: _ => if in_range 128 191 b1
                     then (N.lor (N.shiftl (N.land x 31) 6) (low6 b1), 2%nat)
                     else (RuneError, 1%nat)
        | _ => (RuneError, 1%nat)
        end
      else if x <? 240 then
        let lo := if x =? 224 then 160 else 128 in
        let hi := if x =? 237 then 159 else 191 in
        match r with
        | b1 :: b2 :: _ =>
            if in_range lo hi b1 && in_range 128 191 b2
            then (N.lor (N.lor (N.shiftl (N.land x 15) 12) (N.shiftl (low6 b1) 6)) (low6 b2), 3%nat)
            else (RuneError, 1%nat)
        | _ => (RuneError, 1%nat)
        end
      else if x <? 245 then
        let lo := if x =? 240 then 144 else 128 in
        let hi := if x =? 244 then 143 else 191 in
        match r with
        | b1 :: b2 :: b3 :: _ =>
            if in_range lo hi b1 && in_range 128 191 b2 && in_range 128 191 b3
            then (N.lor (N.lor (N.lor (N.shiftl (N.land x 7) 18) (N.shiftl (low6 b1) 12))
                               (N.shiftl (low6 b2) 6)) (low6 b3), 4%nat)
            else (RuneError, 1%nat)
        | _ => (RuneError, 1%nat)
        end
      else (RuneError, 1%nat)
  end.

Definition is_surrogate (r : rune) : bool := (55296 <=? r) && (r <=? 57343).
Definition valid_rune (r : rune) : bool := (r <=? MaxRune) && negb (is_surrogate r).

Definition cont_byte (n : N) : byte := byte_of_N (N.lor 128 (N.land n 63)).

Definition encode_rune (r : rune) : bytes :=
  if r <? 128 then [byte_of_N r]
  else if r <? 2048 then [byte_of_N (N.lor 192 (N.shiftr r 6)); cont_byte r]
  else if negb (valid_rune r) then [xef; xbf; xbd]
  else if r <? 65536 then [byte_of_N (N.lor 224 (N.shiftr r 12)); cont_byte (N.shiftr r 6); cont_byte r]
  else [byte_of_N (N.lor 240 (N.shiftr r 18)); cont_byte (N.shiftr r 12); cont_byte (N.shiftr r 6); cont_byte r].

(* The runes of a byte string with the byte length of each (what `for i, r := range s` sees). *)
Fixpoint runes_fuel (fuel : nat) (s : bytes) : list (rune * nat) :=
  match fuel with
  | O => []
  | S k => match s with
           | [] => []
           | _ => let '(r, n) := decode_rune s in (r, n) :: runes_fuel k (skipn n s)
           end
  end.
Definition runes_sz (s : bytes) : list (rune * nat) := runes_fuel (length s) s.
Definition runes (s : bytes) : list rune := map fst (runes_sz s).
Definition rune_count (s : bytes) : nat := length (runes_sz s).
Definition encode_runes (rs : list rune) : bytes := flat_map encode_rune rs.

(* utf8.Valid *)
Definition utf8_valid (s : bytes) : bool :=
  forallb (fun p => negb ((fst p =? RuneError) && Nat.eqb (snd p) 1)) (runes_sz s).
