(* Shared vocabulary: bytes as [list byte], hex literals used by generated Cases files. *)
From Coq Require Import String Ascii List NArith.
From Coq.Strings Require Import Byte.
Import ListNotations.

Definition bytes := list byte.

Definition hexval (a : ascii) : N :=
  let n := N_of_ascii a in
  if (N.leb 48 n && N.leb n 57)%bool then n - 48
  else if (N.leb 97 n && N.leb n 102)%bool then n - 87
  else if (N.leb 65 n && N.leb n 70)%bool then n - 55
  else 0.

Definition byte_of_N (n : N) : byte :=
  match Byte.of_N n with Some b => b | None => x00 end.

(* [hx "48656c"] = the bytes 0x48 0x65 0x6c.  An odd trailing digit is ignored. *)
Fixpoint hx (s : string) : bytes :=
  match s with
  | String a (String b r) => byte_of_N (hexval a * 16 + hexval b) :: hx r
  | _ => []
  end.

Definition byte_eqb (a b : byte) : bool := Byte.eqb a b.

Fixpoint bytes_eqb (a b : bytes) : bool :=
  match a, b with
  | [], [] => true
  | x :: a', y :: b' => andb (Byte.eqb x y) (bytes_eqb a' b')
  | _, _ => false
  end.

Lemma bytes_eqb_eq a b : bytes_eqb a b = true <-> a = b.
Proof.
  revert b; induction a as [|x a IH]; intros [|y b]; simpl; split; intro H;
    try reflexivity; try discriminate.
  - apply andb_prop in H as [H1 H2]. apply Byte.byte_dec_bl in H1. apply IH in H2. congruence.
  - inversion H; subst. rewrite Byte.byte_dec_lb by reflexivity. simpl. apply IH. reflexivity.
Qed.

Definition b2n (b : byte) : N := Byte.to_N b.
