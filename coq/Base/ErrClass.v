(* Error classes a FormatReader can return, as far as IsContinuableError distinguishes them. *)
Inductive rcls :=
| RcEOF      (* io.EOF *)
| RcFatal    (* the format's own fatal error type (ErrInvalidHeader, ErrInvalidEDI, ...) *)
| RcFailed   (* errs.ErrTransformFailed *)
| RcLatched  (* the reader's own latched input-I/O error instance (old csv reader: r.readErr) *)
| RcPlain.   (* any other error value *)

Definition rc_is_eof (c : rcls) : bool := match c with RcEOF => true | _ => false end.
Definition rc_is_fatal (c : rcls) : bool := match c with RcFatal => true | _ => false end.
Definition rc_is_failed (c : rcls) : bool := match c with RcFailed => true | _ => false end.
Definition rc_is_latched (c : rcls) : bool := match c with RcLatched => true | _ => false end.
