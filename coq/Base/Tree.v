(* The abstract ordered node tree used by every model except the pointer-level heap model of
   C12 (which justifies it): what an *idr.Node subtree looks like, without IDs or addresses. *)
From Coq Require Import List NArith Bool.
From Coq.Strings Require Import Byte.
Import ListNotations.
From OV Require Import Base.Bytes Base.Cases.

Inductive ntype := DocumentNode | ElementNode | TextNode | AttributeNode.

(* idr.Node.FormatSpecific: nil, idr.XMLSpecific{prefix, uri} or idr.JSONType (bit flags:
   1 root, 2 obj, 4 arr, 8 prop, 16 str, 32 num, 64 bool, 128 null). *)
Inductive fspec := FNone | FXml (prefix uri : bytes) | FJson (flags : N).

Inductive tree := T (ty : ntype) (data : bytes) (fs : fspec) (kids : list tree).

Definition t_type (t : tree) := let 'T ty _ _ _ := t in ty.
Definition t_data (t : tree) := let 'T _ d _ _ := t in d.
Definition t_fs (t : tree) := let 'T _ _ f _ := t in f.
Definition t_kids (t : tree) := let 'T _ _ _ k := t in k.

Definition ntype_eqb (a b : ntype) : bool :=
  match a, b with
  | DocumentNode, DocumentNode | ElementNode, ElementNode
  | TextNode, TextNode | AttributeNode, AttributeNode => true
  | _, _ => false
  end.

Definition fspec_eqb (a b : fspec) : bool :=
  match a, b with
  | FNone, FNone => true
  | FXml p u, FXml p' u' => bytes_eqb p p' && bytes_eqb u u'
  | FJson f, FJson f' => N.eqb f f'
  | _, _ => false
  end.

Fixpoint tree_eqb (a b : tree) : bool :=
  let 'T ty d f ks := a in
  let 'T ty' d' f' ks' := b in
  ntype_eqb ty ty' && bytes_eqb d d' && fspec_eqb f f' &&
  (fix go (xs ys : list tree) : bool :=
     match xs, ys with
     | [], [] => true
     | x :: xs', y :: ys' => tree_eqb x y && go xs' ys'
     | _, _ => false
     end) ks ks'.

Fixpoint tree_size (t : tree) : nat :=
  let 'T _ _ _ ks := t in S (fold_right (fun k n => tree_size k + n) 0 ks).

(* Node.InnerText: the concatenated text of the subtree, attributes excluded. *)
Fixpoint inner_text (t : tree) : bytes :=
  let 'T ty d _ ks := t in
  match ty with
  | TextNode => d
  | _ => flat_map (fun k => match t_type k with AttributeNode => [] | _ => inner_text k end) ks
  end.

(* A stronger induction principle (the automatically generated one ignores the nested list). *)
Section tree_ind2.
  Variable P : tree -> Prop.
  Hypothesis HT : forall ty d f ks, Forall P ks -> P (T ty d f ks).
  Fixpoint tree_ind2 (t : tree) : P t :=
    let 'T ty d f ks := t in
    HT ty d f ks ((fix go (l : list tree) : Forall P l :=
                     match l with
                     | [] => Forall_nil P
                     | x :: r => Forall_cons x (tree_ind2 x) (go r)
                     end) ks).
End tree_ind2.
